// C17 — bulk_schedule / bulk_transform / bulk_join / indexed_for visit each
// index exactly once before the terminal signal; find_if is exact.
//
// Generator: n from boundary tables around the cancellation chunk size (16)
// and find_if's chunk arithmetic (32 chunks, min 4), plus random sizes; all
// four execution policies on receiver and functions; three schedulers; stop
// never / possible-but-unused / from inside set_next at index k / before start.
// Oracle: per-index counters, terminal-once, no set_next after or overlapping
// the terminal signal, overlap detector honouring the policy, chain value
// mapping, policy-intersection table, std::find_if differential, every
// iterator dereference inside [begin,end).
#include "kit/case.hpp"

#include <unifex/bulk_join.hpp>
#include <unifex/bulk_schedule.hpp>
#include <unifex/bulk_transform.hpp>
#include <unifex/find_if.hpp>
#include <unifex/inline_scheduler.hpp>
#include <unifex/inplace_stop_token.hpp>
#include <unifex/just.hpp>
#include <unifex/single_thread_context.hpp>
#include <unifex/static_thread_pool.hpp>
#include <unifex/unstoppable_token.hpp>

#include <atomic>
#include <condition_variable>
#include <memory>
#include <mutex>

namespace execution {
class sequenced_policy {};
class parallel_policy {};
}  // namespace execution
#include <unifex/indexed_for.hpp>

using namespace unifex;

namespace {

const char* P = "C17";

struct Waiter {
  std::mutex m; std::condition_variable cv; bool done = false;
  void signal() { std::lock_guard<std::mutex> l(m); done = true; cv.notify_all(); }
  bool wait(int secs) {
    std::unique_lock<std::mutex> l(m);
    return cv.wait_for(l, std::chrono::seconds(secs), [&] { return done; });
  }
};

struct State {
  size_t n = 0;
  std::vector<uint32_t> counts;      // set_next / function invocations per index
  std::vector<uint64_t> seen_vals;   // value delivered per index (chains)
  std::atomic<int> in_next{0};
  std::atomic<int> terminals{0};
  int channel = -1;                  // 0 value 1 error 2 done
  bool par_allowed = false;          // receiver/function policy allows concurrency
  inplace_stop_source stop;
  long stop_at = -1;                 // request stop from inside the call for this index
  bool stop_requested_by_us = false;
  size_t calls_after_terminal = 0;
  size_t out_of_range = 0;
  size_t overlaps = 0;
  size_t order_breaks = 0;
  long last_index = -1;
  bool check_order = false;
  Waiter w;

  void enter_next(uint64_t idx) {
    int prev = in_next.fetch_add(1);
    if (prev != 0 && !par_allowed) overlaps++;
    if (terminals.load() != 0) calls_after_terminal++;
    if (idx >= n) { out_of_range++; }
    else {
      counts[idx]++;
      if (check_order) { if ((long)idx != last_index + 1) order_breaks++; last_index = (long)idx; }
    }
    if ((long)idx == stop_at) { stop_requested_by_us = true; stop.request_stop(); }
  }
  void leave_next() { in_next.fetch_sub(1); }
  void terminal(int ch) {
    if (in_next.load() != 0) overlaps += 1000;  // terminal signal while a set_next is in progress
    channel = ch;
    terminals.fetch_add(1);
    w.signal();
  }
};

template <class Policy, bool Stoppable>
struct ManyRecv {
  State* s;
  void set_next(size_t i) & noexcept { s->enter_next(i); s->leave_next(); }
  void set_value() && noexcept { s->terminal(0); }
  template <class E> void set_error(E&&) && noexcept { s->terminal(1); }
  void set_done() && noexcept { s->terminal(2); }
  friend Policy tag_invoke(tag_t<get_execution_policy>, const ManyRecv&) noexcept { return {}; }
  friend auto tag_invoke(tag_t<get_stop_token>, const ManyRecv& r) noexcept {
    if constexpr (Stoppable) return r.s->stop.get_token(); else return unstoppable_token{};
  }
};

template <bool Stoppable, class Sched>
struct PlainRecv {
  State* s; Sched sched;
  template <class... V> void set_value(V&&...) && noexcept { s->terminal(0); }
  template <class E> void set_error(E&&) && noexcept { s->terminal(1); }
  void set_done() && noexcept { s->terminal(2); }
  friend auto tag_invoke(tag_t<get_stop_token>, const PlainRecv& r) noexcept {
    if constexpr (Stoppable) return r.s->stop.get_token(); else return unstoppable_token{};
  }
  friend Sched tag_invoke(tag_t<get_scheduler>, const PlainRecv& r) noexcept { return r.sched; }
};

single_thread_context* g_stc;
static_thread_pool* g_pool;

size_t pick_n(vk::Choice& c, bool findif) {
  static const int bt[] = {0, 1, 2, 3, 4, 5, 7, 8, 15, 16, 17, 18, 31, 32, 33, 47, 48, 49, 63, 64, 65, 100,
                           127, 128, 129, 131, 132, 133, 159, 160, 161, 191, 192, 255, 256, 257, 500, 991, 992,
                           993, 1000, 1023, 1024, 1025, 2000, 4096};
  switch (c.upto(4)) {
    case 0: return (size_t)bt[c.upto(sizeof bt / sizeof bt[0])];
    case 1: return c.upto(70);
    case 2: return c.upto(findif ? 1300 : 1200);
    default: return c.upto(findif ? 2100 : 5000);
  }
}

const char* pol_name(int p) { static const char* n[] = {"seq", "unseq", "par", "par_unseq"}; return n[p]; }
const char* sched_name(int s) { static const char* n[] = {"inline", "single_thread", "thread_pool"}; return n[s]; }
const char* stop_name(int s) { static const char* n[] = {"unstoppable", "stoppable-unused", "stop-at-index", "stop-before-start"}; return n[s]; }

template <class F>
void with_policy(int p, F&& f) {
  switch (p) { case 0: f(seq); break; case 1: f(unseq); break; case 2: f(par); break; default: f(par_unseq); }
}
template <class F>
void with_sched(int k, F&& f) {
  switch (k) { case 0: f(inline_scheduler{}); break; case 1: f(g_stc->get_scheduler()); break; default: f(g_pool->get_scheduler()); }
}

// Places the operation state on the heap with exact size so that ASan sees overruns.
template <class Sender, class Receiver>
void run_op(State& st, Sender&& snd, Receiver&& r, bool start_it) {
  using Op = connect_result_t<Sender, Receiver>;
  void* mem = ::operator new(sizeof(Op), std::align_val_t(alignof(Op)));
  Op* op = ::new (mem) Op(connect((Sender &&) snd, (Receiver &&) r));
  if (st.terminals.load() != 0) vk::ctx().fail("C01", "signal_before_start", "completion signal delivered before start()");
  if (start_it) {
    start(*op);
    if (!st.w.wait(30)) {
      vk::ctx().fail("C01", "lost_completion", "no terminal signal within 30 s of start()");
      vk::fatal_exit();
    }
  } else if (st.terminals.load() != 0 || st.in_next.load() != 0) {
    vk::ctx().fail("C01", "signal_without_start", "signals delivered although the operation was never started");
  }
  op->~Op();
  ::operator delete(mem, std::align_val_t(alignof(Op)));
}

void check_bulk_common(State& st, int stop_kind, const char* what) {
  auto& cx = vk::ctx();
  if (st.terminals.load() != 1) { cx.fail(P, "terminal_count", "%s: %d terminal signals", what, st.terminals.load()); return; }
  if (st.calls_after_terminal) cx.fail(P, "next_after_terminal", "%s: %zu set_next calls after the terminal signal", what, st.calls_after_terminal);
  if (st.overlaps) cx.fail(P, "overlap", "%s: set_next overlapped (policy forbids it) or overlapped the terminal signal", what);
  if (st.out_of_range) cx.fail(P, "index_out_of_range", "%s: %zu calls with index >= n", what, st.out_of_range);
  if (st.order_breaks) cx.fail(P, "order", "%s: sequenced indices not visited in order", what);
  size_t once = 0, zero = 0, multi = 0; long first_zero = -1, last_once = -1;
  for (size_t i = 0; i < st.n; ++i) {
    if (st.counts[i] == 1) { once++; last_once = (long)i; }
    else if (st.counts[i] == 0) { zero++; if (first_zero < 0) first_zero = (long)i; }
    else multi++;
  }
  if (multi) cx.fail(P, "index_twice", "%s: %zu indices visited more than once", what, multi);
  bool stop_was_requested = st.stop.stop_requested();
  if (st.channel == 0) {
    if (zero) cx.fail(P, "index_missed", "%s: completed with value but %zu of %zu indices never visited (first %ld)", what, zero, st.n, first_zero);
  } else if (st.channel == 2) {
    if (!stop_was_requested) cx.fail(P, "done_without_stop", "%s: completed with done although stop was never requested", what);
    if (first_zero >= 0 && last_once > first_zero) cx.fail(P, "hole", "%s: visited indices are not a prefix (hole at %ld, later %ld visited)", what, first_zero, last_once);
    if (stop_kind == 2 && st.stop_at >= 0 && (size_t)st.stop_at < st.n && st.counts[st.stop_at] != 1)
      cx.fail(P, "stop_index", "%s: inconsistent stop index", what);
  } else {
    cx.fail(P, "unexpected_error", "%s: completed with error", what);
  }
  if (stop_kind == 3 && st.channel != 2 && st.n > 0)
    cx.fail(P, "stop_before_start_ignored", "%s: stop requested before start, n=%zu, but completed on channel %d", what, st.n, st.channel);
  if (stop_kind == 3 && once != 0) cx.fail(P, "work_after_stop", "%s: %zu indices visited although stop was requested before start", what, once);
}

// ---------------------------------------------------------------- mode 0
void mode_direct(vk::Choice& c) {
  auto& cx = vk::ctx();
  State st; st.n = pick_n(c, false); st.counts.assign(st.n, 0);
  int pol = (int)c.upto(4), sk = (int)c.upto(3), stopk = (int)c.upto(4);
  bool start_it = !c.chance(1, 16);
  if (stopk == 2) st.stop_at = st.n ? (long)c.upto((uint32_t)st.n) : -1;
  st.par_allowed = (pol >= 2);
  st.check_order = (pol == 0);
  cx.desc = vk::sfmt("bulk_schedule n=%zu policy=%s sched=%s stop=%s@%ld started=%d", st.n, pol_name(pol), sched_name(sk), stop_name(stopk), st.stop_at, (int)start_it);
  cx.nontrivial = st.n > 16 || stopk >= 2;
  cx.label(std::string("direct/") + pol_name(pol) + "/" + stop_name(stopk));
  if (stopk == 3) st.stop.request_stop();
  with_policy(pol, [&](auto policy) {
    using Pol = decltype(policy);
    with_sched(sk, [&](auto sched) {
      if (stopk == 0) run_op(st, bulk_schedule(sched, st.n), ManyRecv<Pol, false>{&st}, start_it);
      else run_op(st, bulk_schedule(sched, st.n), ManyRecv<Pol, true>{&st}, start_it);
    });
  });
  if (start_it) check_bulk_common(st, stopk, "bulk_schedule");
}

// ---------------------------------------------------------------- mode 1/2: chains
template <class Pol> struct PolFn1 {  // index -> value
  State* s;
  uint64_t operator()(size_t i) const noexcept { return (uint64_t)i * 2 + 1000001; }
  friend Pol tag_invoke(tag_t<get_execution_policy>, const PolFn1&) noexcept { return {}; }
};
template <class Pol> struct PolFnLast {  // value -> void, records
  State* s; bool mapped;
  void operator()(uint64_t v) const noexcept {
    uint64_t idx = v;
    if (mapped) {
      // invert f1 (injective); a value f1 never produced is flagged as out of range
      idx = (v >= 1000001 && ((v - 1000001) & 1) == 0) ? (v - 1000001) / 2 : s->n;
    }
    s->enter_next(idx);
    s->leave_next();
  }
  friend Pol tag_invoke(tag_t<get_execution_policy>, const PolFnLast&) noexcept { return {}; }
};

void mode_chain(vk::Choice& c, int depth) {
  auto& cx = vk::ctx();
  State st; st.n = pick_n(c, false); st.counts.assign(st.n, 0);
  int p1 = (int)c.upto(4), p2 = (int)c.upto(4), sk = (int)c.upto(3), stopk = (int)c.upto(4);
  if (stopk == 2) st.stop_at = st.n ? (long)c.upto((uint32_t)st.n) : -1;
  st.par_allowed = false;  // the default bulk_schedule runs on one thread: no overlap whatever the policy
  cx.desc = vk::sfmt("bulk_join(bulk_transform^%d(bulk_schedule n=%zu)) f1=%s f2=%s sched=%s stop=%s@%ld ", depth, st.n, pol_name(p1), pol_name(p2), sched_name(sk), stop_name(stopk), st.stop_at);
  cx.nontrivial = st.n > 16 || stopk >= 2;
  cx.label(vk::sfmt("chain%d/%s", depth, stop_name(stopk)));
  if (stopk == 3) st.stop.request_stop();
  with_policy(p1, [&](auto pol1) {
    with_policy(p2, [&](auto pol2) {
      using P1 = decltype(pol1); using P2 = decltype(pol2);
      with_sched(sk, [&](auto sched) {
        using S = decltype(sched);
        auto go = [&](auto&& snd) {
          if (stopk == 0) run_op(st, std::move(snd), PlainRecv<false, S>{&st, sched}, true);
          else run_op(st, std::move(snd), PlainRecv<true, S>{&st, sched}, true);
        };
        if (depth == 1) {
          go(bulk_join(bulk_transform(bulk_schedule(sched, st.n), PolFnLast<P1>{&st, false}, pol1)));
        } else {
          go(bulk_join(bulk_transform(bulk_transform(bulk_schedule(sched, st.n), PolFn1<P1>{&st}, pol1), PolFnLast<P2>{&st, true}, pol2)));
        }
      });
    });
  });
  check_bulk_common(st, stopk, depth == 1 ? "bulk_transform|bulk_join" : "bulk_transform^2|bulk_join");
}

// ---------------------------------------------------------------- mode 6: policy visible to the bulk source
// A harness bulk source that records the execution policy it can see through
// the receiver chain and emits indices in an order that policy allows.
template <class... > struct tl {};
struct PolicyProbe {
  State* s; int* seen_policy; size_t n;
  template <template <typename...> class Variant, template <typename...> class Tuple> using value_types = Variant<Tuple<>>;
  template <template <typename...> class Variant, template <typename...> class Tuple> using next_types = Variant<Tuple<size_t>>;
  template <template <typename...> class Variant> using error_types = Variant<std::exception_ptr>;
  static constexpr bool sends_done = true;
  static constexpr blocking_kind blocking = blocking_kind::always_inline;
  static constexpr bool is_always_scheduler_affine = true;
  template <class R> struct Op {
    struct { State* s; int* seen_policy; size_t n; } p; R r;
    void start() noexcept {
      using pol = decltype(get_execution_policy(r));
      *p.seen_policy = std::is_same_v<pol, sequenced_policy> ? 0 : std::is_same_v<pol, unsequenced_policy> ? 1 : std::is_same_v<pol, parallel_policy> ? 2 : 3;
      bool reorder = *p.seen_policy != 0;  // anything but seq may be visited in any order
      for (size_t k = 0; k < p.n; ++k) { size_t i = reorder ? p.n - 1 - k : k; unifex::set_next(r, size_t(i)); }
      unifex::set_value(std::move(r));
    }
  };
  template <class R> friend Op<remove_cvref_t<R>> tag_invoke(tag_t<connect>, PolicyProbe p, R&& r) { return Op<remove_cvref_t<R>>{{p.s, p.seen_policy, p.n}, (R &&) r}; }
};

void mode_policy(vk::Choice& c) {
  auto& cx = vk::ctx();
  State st; st.n = c.upto(40); st.counts.assign(st.n, 0);
  int p1 = (int)c.upto(4), p2 = (int)c.upto(4); int depth = 1 + (int)c.upto(2);
  int seen = -1;
  cx.desc = vk::sfmt("policy probe: depth=%d f1=%s f2=%s under bulk_join (par_unseq) n=%zu", depth, pol_name(p1), pol_name(p2), st.n);
  cx.nontrivial = true;
  cx.label(vk::sfmt("policy/%d/%s/%s", depth, pol_name(p1), depth == 2 ? pol_name(p2) : "-"));
  st.par_allowed = false;
  with_policy(p1, [&](auto pol1) {
    with_policy(p2, [&](auto pol2) {
      using P1 = decltype(pol1); using P2 = decltype(pol2);
      if (depth == 1) run_op(st, bulk_join(bulk_transform(PolicyProbe{&st, &seen, st.n}, PolFnLast<P1>{&st, false}, pol1)), PlainRecv<false, inline_scheduler>{&st, {}}, true);
      else run_op(st, bulk_join(bulk_transform(bulk_transform(PolicyProbe{&st, &seen, st.n}, PolFn1<P1>{&st}, pol1), PolFnLast<P2>{&st, true}, pol2)), PlainRecv<false, inline_scheduler>{&st, {}}, true);
    });
  });
  // documented intersection (bulk_transform.hpp get_execution_policy customisation + execution_policy.hpp):
  // unsequenced allowed iff every stage allows it; parallel allowed iff every stage allows it; bulk_join = par_unseq
  auto unseq_ok = [](int p) { return p == 1 || p == 3; };
  auto par_ok = [](int p) { return p == 2 || p == 3; };
  bool u = unseq_ok(p1) && (depth == 1 || unseq_ok(p2));
  bool pa = par_ok(p1) && (depth == 1 || par_ok(p2));
  int expect = (u && pa) ? 3 : u ? 1 : pa ? 2 : 0;
  if (seen != expect) cx.fail(P, "policy_intersection", "bulk source saw policy %s, expected %s (f1=%s f2=%s depth=%d)", seen < 0 ? "none" : pol_name(seen), pol_name(expect), pol_name(p1), pol_name(p2), depth);
  check_bulk_common(st, 0, "policy probe chain");
}

// ---------------------------------------------------------------- find_if
struct FState {
  long n = 0;
  std::vector<int> data;
  std::atomic<long> derefs{0};
  std::atomic<long> oob{0};
  long first_oob = 0;
  std::vector<std::atomic<uint32_t>> evals;
  explicit FState(long n_) : n(n_), data((size_t)n_, 0), evals((size_t)n_) { for (auto& e : evals) e.store(0); }
};
FState* g_fs;

struct CheckedIt {
  using value_type = int; using reference = const int&; using pointer = const int*;
  using difference_type = long; using iterator_category = std::random_access_iterator_tag;
  long i = 0;
  reference operator*() const {
    static const int dummy = 0;
    FState& f = *g_fs;
    long d = f.derefs.fetch_add(1);
    if (i < 0 || i >= f.n) {
      if (f.oob.fetch_add(1) == 0) f.first_oob = i;
      vk::ctx().fail(P, "find_if_out_of_range", "find_if evaluated the predicate on position %ld of a range of length %ld", i, f.n);
      if (d > 4 * f.n + 100000) vk::fatal_exit();  // unbounded walk outside the range
      return dummy;
    }
    f.evals[(size_t)i].fetch_add(1);
    return f.data[(size_t)i];
  }
  CheckedIt& operator++() { ++i; return *this; }
  CheckedIt operator++(int) { auto c = *this; ++i; return c; }
  CheckedIt& operator--() { --i; return *this; }
  CheckedIt& operator+=(long d) { i += d; return *this; }
  CheckedIt& operator-=(long d) { i -= d; return *this; }
  friend CheckedIt operator+(CheckedIt a, long d) { a.i += d; return a; }
  friend CheckedIt operator+(long d, CheckedIt a) { a.i += d; return a; }
  friend CheckedIt operator-(CheckedIt a, long d) { a.i -= d; return a; }
  friend long operator-(CheckedIt a, CheckedIt b) { return a.i - b.i; }
  reference operator[](long d) const { return *(*this + d); }
  friend bool operator==(CheckedIt a, CheckedIt b) { return a.i == b.i; }
  friend bool operator!=(CheckedIt a, CheckedIt b) { return a.i != b.i; }
  friend bool operator<(CheckedIt a, CheckedIt b) { return a.i < b.i; }
  friend bool operator>(CheckedIt a, CheckedIt b) { return a.i > b.i; }
  friend bool operator<=(CheckedIt a, CheckedIt b) { return a.i <= b.i; }
  friend bool operator>=(CheckedIt a, CheckedIt b) { return a.i >= b.i; }
};

template <class Sched>
struct FindRecv {
  State* s; Sched sched; long* result; int* extra; bool stoppable;
  void set_value(CheckedIt it, int param) && noexcept { *result = it.i; *extra = param; s->terminal(0); }
  template <class E> void set_error(E&&) && noexcept { s->terminal(1); }
  void set_done() && noexcept { s->terminal(2); }
  friend inplace_stop_token tag_invoke(tag_t<get_stop_token>, const FindRecv& r) noexcept { return r.stoppable ? r.s->stop.get_token() : inplace_stop_token{}; }
  friend Sched tag_invoke(tag_t<get_scheduler>, const FindRecv& r) noexcept { return r.sched; }
};

// A scheduler with its own bulk_schedule: when the receiver's execution policy is parallel it launches the indices in order
// (testing the stop token before each launch) but runs the launched ones in a generated order; sequenced receivers are
// visited strictly in index order.  It stands for "all worker interleavings when run on a multi-threaded
// scheduler": whatever a concurrent scheduler does is, at set_next granularity, one of these orders.
struct PermSched {
  uint64_t seed = 0;
  struct schedule_sender {
    template <template <class...> class V, template <class...> class T> using value_types = V<T<>>;
    template <template <class...> class V> using error_types = V<>;
    static constexpr bool sends_done = false;
    static constexpr blocking_kind blocking = blocking_kind::always_inline;
    template <class R> struct op { R r; void start() noexcept { unifex::set_value(std::move(r)); } };
    template <class R> friend op<remove_cvref_t<R>> tag_invoke(tag_t<connect>, schedule_sender, R&& r) { return op<remove_cvref_t<R>>{(R &&) r}; }
  };
  schedule_sender schedule() const noexcept { return {}; }
  friend bool operator==(PermSched a, PermSched b) noexcept { return a.seed == b.seed; }
  friend bool operator!=(PermSched a, PermSched b) noexcept { return a.seed != b.seed; }
  template <class Integral>
  struct bulk_sender {
    uint64_t seed; Integral n;
    template <template <class...> class V, template <class...> class T> using value_types = V<T<>>;
    template <template <class...> class V, template <class...> class T> using next_types = V<T<Integral>>;
    template <template <class...> class V> using error_types = V<>;
    static constexpr bool sends_done = true;
    static constexpr blocking_kind blocking = blocking_kind::always_inline;
    template <class R> struct op {
      uint64_t seed; Integral n; R r;
      void start() noexcept {
        using policy_t = decltype(get_execution_policy(r));
        constexpr bool any_order = std::is_same_v<policy_t, parallel_policy> || std::is_same_v<policy_t, parallel_unsequenced_policy>;
        // Tasks are *launched* in index order, the stop token being tested before each launch (find_if.hpp relies on exactly
        // that: "bulk_schedule will launch tasks (or at least, test for cancellation) in iteration-space order"); launched
        // tasks *run* in a generated order, interleaved with further launches, as on a pool of workers.
        auto tok = get_stop_token(r);
        std::vector<Integral> ready; uint64_t x = seed | 1; bool stopped = false; Integral next = 0;
        auto rnd = [&] { x ^= x << 13; x ^= x >> 7; x ^= x << 17; return x; };
        while (next < n || !ready.empty()) {
          bool launch = next < n && !stopped && (!any_order || ready.empty() || rnd() % 3 != 0);
          if (next < n && !stopped && !launch && ready.empty()) launch = true;
          if (launch) {
            if (tok.stop_requested()) { stopped = true; continue; }
            ready.push_back(next++);
            if (!any_order) { Integral i = ready.back(); ready.pop_back(); unifex::set_next(r, Integral(i)); }
          } else if (!ready.empty()) {
            size_t k = (size_t)(rnd() % ready.size());
            Integral i = ready[k]; ready.erase(ready.begin() + (long)k);
            unifex::set_next(r, Integral(i));
          } else break;   // stopped and nothing left to run
        }
        if (stopped) { unifex::set_done(std::move(r)); return; }
        unifex::set_value(std::move(r));
      }
    };
    template <class R> friend op<remove_cvref_t<R>> tag_invoke(tag_t<connect>, bulk_sender s, R&& r) { return op<remove_cvref_t<R>>{s.seed, s.n, (R &&) r}; }
  };
  template <class Integral>
  friend bulk_sender<Integral> tag_invoke(tag_t<bulk_schedule>, PermSched s, Integral n) noexcept { return {s.seed, n}; }
};

bool known(const char* sig) {
  std::string k = vk::ctx().arg("known");
  return ("," + k + ",").find(std::string(",") + sig + ",") != std::string::npos;
}

void mode_find_if(vk::Choice& c, bool parallel) {
  auto& cx = vk::ctx();
  long n = (long)pick_n(c, true);
  // dense sampling of the window where the chunk arithmetic changes regime
  if (c.chance(1, 3)) n = 120 + (long)c.upto(1000);
  FState fs(n); g_fs = &fs;
  int mk = (int)c.upto(5);  // none / first / last / one random / several
  std::vector<long> marks;
  if (n > 0) {
    if (mk == 1) marks.push_back(0);
    else if (mk == 2) marks.push_back(n - 1);
    else if (mk == 3) marks.push_back((long)c.upto((uint32_t)n));
    else if (mk == 4) { int k = 2 + (int)c.upto(4); for (int j = 0; j < k; ++j) marks.push_back((long)c.upto((uint32_t)n)); }
  }
  for (long m : marks) fs.data[(size_t)m] = 7;
  long expect = n;
  for (long i = 0; i < n; ++i) if (fs.data[(size_t)i] == 7) { expect = i; break; }
  int sk = (int)c.upto(3);
  bool stoppable = c.flag();
  State st; st.n = 0;
  long result = -12345; int extra = 0;
  cx.desc = vk::sfmt("find_if %s len=%ld marks=%s first_match=%ld sched=%s stoppable=%d", parallel ? "par" : "seq", n,
                     mk == 0 ? "none" : mk == 1 ? "first" : mk == 2 ? "last" : mk == 3 ? "one" : "several", expect, sched_name(sk), (int)stoppable);
  cx.nontrivial = parallel ? n > 128 : n > 1;
  cx.label(vk::sfmt("find_if/%s/%s", parallel ? "par" : "seq", n <= 128 ? "<=128" : n < 160 ? "129-159" : n <= 991 ? "160-991" : ">991"));
  if (parallel && known("find_if_out_of_range")) {
    // known finding: the parallel chunking steps outside the range when chunk_size*(num_chunks-1) > n
    long nc = (n / 32) > 4 ? 32 : ((n + 4) / 4); long cs = (n + nc) / nc;
    if (cs * (nc - 1) > n) { cx.discard = true; cx.discard_why = "known:find_if_out_of_range"; return; }
  }
  // (derived from the hash of the decoded case: recorded byte strings keep their meaning unless --legacy=1 is absent and the hash says so)
  const bool permuting = parallel && cx.argi("legacy", 0) == 0 && c.h % 3 == 0;
  if (permuting) {
    PermSched ps{c.h / 3}; c.mix(99);
    cx.desc += vk::sfmt(" [scheduler with its own bulk_schedule: tasks launched in order, run in a generated order (seed %llx)]", (unsigned long long)ps.seed);
    cx.label("find_if/par/permuting-bulk_schedule");
    auto pred = [](const int& v, int param) noexcept { return v == param; };
    run_op(st, find_if(just(CheckedIt{0}, CheckedIt{n}, 7), pred, par), FindRecv<PermSched>{&st, ps, &result, &extra, stoppable}, true);
  } else
  with_sched(sk, [&](auto sched) {
    using S = decltype(sched);
    auto pred = [](const int& v, int param) noexcept { return v == param; };
    if (parallel) run_op(st, find_if(just(CheckedIt{0}, CheckedIt{n}, 7), pred, par), FindRecv<S>{&st, sched, &result, &extra, stoppable}, true);
    else run_op(st, find_if(just(CheckedIt{0}, CheckedIt{n}, 7), pred, seq), FindRecv<S>{&st, sched, &result, &extra, stoppable}, true);
  });
  if (st.terminals.load() != 1) { cx.fail(P, "find_if_terminal_count", "find_if delivered %d terminal signals", st.terminals.load()); return; }
  if (st.channel != 0) { cx.fail(P, "find_if_channel", "find_if completed on channel %d (no stop was requested, predicate does not throw)", st.channel); return; }
  if (result != expect) cx.fail(P, "find_if_result", "find_if returned position %ld, std::find_if gives %ld (len %ld)", result, expect, n);
  if (extra != 7) cx.fail(P, "find_if_passthrough", "extra argument arrived as %d, sent 7", extra);
  if (!parallel) {
    // sequential: exactly the elements up to and including the first match, once each
    long upto = expect < n ? expect + 1 : n;
    for (long i = 0; i < n; ++i) {
      uint32_t e = fs.evals[(size_t)i].load();
      if ((i < upto && e != 1) || (i >= upto && e != 0)) { cx.fail(P, "find_if_seq_evals", "sequential find_if evaluated position %ld %u times (first match %ld)", i, e, expect); break; }
    }
  } else {
    for (long i = 0; i < n; ++i) if (fs.evals[(size_t)i].load() > 1) { cx.fail(P, "find_if_double_eval", "parallel find_if evaluated position %ld %u times", i, fs.evals[(size_t)i].load()); break; }
    if (expect == n) for (long i = 0; i < n; ++i) if (fs.evals[(size_t)i].load() != 1) { cx.fail(P, "find_if_skipped", "no match exists but position %ld was never examined", i); break; }
  }
  g_fs = nullptr;
}

// ---------------------------------------------------------------- indexed_for
struct IotaIt {
  using value_type = int; using reference = int; using difference_type = size_t; using pointer = int*;
  using iterator_category = std::random_access_iterator_tag;
  int b;
  int operator[](size_t o) const { return b + (int)o; }
  int operator*() const { return b; }
  IotaIt operator++() { ++b; return *this; }
  IotaIt operator++(int) { auto c = *this; ++b; return c; }
  bool operator!=(const IotaIt& r) const { return b != r.b; }
};
struct Iota { int n; using iterator = IotaIt; IotaIt begin() { return {0}; } IotaIt end() { return {n}; } size_t size() const { return (size_t)n; } };

struct IforRecv {
  State* s; long* out;
  void set_value(long&& v) && noexcept { *out = v; s->terminal(0); }
  template <class E> void set_error(E&&) && noexcept { s->terminal(1); }
  void set_done() && noexcept { s->terminal(2); }
};

void mode_indexed_for(vk::Choice& c) {
  auto& cx = vk::ctx();
  State st; st.n = c.upto(3) == 0 ? pick_n(c, false) : c.upto(100); st.counts.assign(st.n, 0);
  bool parallel = c.flag(); bool throws = c.chance(1, 6);
  long throw_at = throws && st.n ? (long)c.upto((uint32_t)st.n) : -1;
  long out = -1;
  st.check_order = !parallel;
  cx.desc = vk::sfmt("indexed_for %s n=%zu throw_at=%ld", parallel ? "par" : "seq", st.n, throw_at);
  cx.nontrivial = st.n > 16 || throw_at >= 0;
  cx.label(vk::sfmt("indexed_for/%s/%s", parallel ? "par" : "seq", throw_at >= 0 ? "throw" : "nothrow"));
  auto fn = [&st, throw_at](int idx, long& acc) { st.enter_next((uint64_t)idx); st.leave_next(); if (idx == throw_at) throw 42; acc += idx; };
  if (parallel) run_op(st, indexed_for(just(1000L), execution::parallel_policy{}, Iota{(int)st.n}, fn), IforRecv{&st, &out}, true);
  else run_op(st, indexed_for(just(1000L), execution::sequenced_policy{}, Iota{(int)st.n}, fn), IforRecv{&st, &out}, true);
  if (st.terminals.load() != 1) { cx.fail(P, "ifor_terminal_count", "indexed_for delivered %d terminal signals", st.terminals.load()); return; }
  if (throw_at >= 0) {
    if (st.channel != 1) cx.fail(P, "ifor_throw_channel", "function threw at %ld but indexed_for completed on channel %d", throw_at, st.channel);
    for (size_t i = 0; i < st.n; ++i) if (st.counts[i] > 1) cx.fail(P, "ifor_twice", "index %zu visited %u times", i, st.counts[i]);
  } else {
    if (st.channel != 0) cx.fail(P, "ifor_channel", "indexed_for completed on channel %d", st.channel);
    long expect = 1000; for (size_t i = 0; i < st.n; ++i) { expect += (long)i; if (st.counts[i] != 1) { cx.fail(P, "ifor_count", "index %zu visited %u times", i, st.counts[i]); break; } }
    if (out != expect) cx.fail(P, "ifor_value", "indexed_for passed on %ld, expected %ld", out, expect);
  }
  if (st.calls_after_terminal || st.order_breaks) cx.fail(P, "ifor_order", "indexed_for order/after-terminal violation");
}

}  // namespace

extern "C" const char* vk_harness_name() { return "c17_bulk"; }
const char* vk_nontrivial_rule() {
  return "cases decoded from rapidcheck byte strings: mode in {bulk_schedule direct, 1- and 2-stage bulk_transform|bulk_join, policy probe, "
         "find_if seq, find_if par, indexed_for} x n (boundary table around 16/32/128/160/992, random <=5000) x 4 policies x "
         "{inline, single_thread_context, static_thread_pool} x stop {never, unused, at index k, before start}; "
         "non-trivial = n>16 or a stop inside/before the run (bulk), len>128 (find_if par) / len>1 (seq), always (policy probe); "
         "distinct = hash of the decoded choice sequence";
}
void vk_harness_init() {
  g_stc = new single_thread_context();
  g_pool = new static_thread_pool(3);
}

void vk_run_case(vk::Choice& c) {
  switch (c.upto(8)) {
    case 0: mode_direct(c); break;
    case 1: mode_chain(c, 1); break;
    case 2: mode_chain(c, 2); break;
    case 3: mode_find_if(c, false); break;
    case 4: case 5: mode_find_if(c, true); break;
    case 6: mode_indexed_for(c); break;
    default: mode_policy(c); break;
  }
}
