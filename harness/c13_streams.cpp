// C13 — streams deliver the adapted sequence in order and clean up exactly once.
//
// A case = one pipeline from a static catalogue (stream sources and adaptors composed up to depth 4) + the behaviour of
// up to three harness sources (length, how the sequence ends, per-call timing, reaction to stop, cleanup timing/result)
// + a consumer (reduce_stream, for_each, or a hand-written consumer that may leave early) + an injected functor fault
// + the step at which the receiver's stop source fires + the order in which deferred completions are delivered.
// The driver owns the only thread and decides every ordering (sequential event mode).
//
// Oracles
//   at the harness sources (hold for every pipeline and timing):
//     next() never overlaps next(), never starts after cleanup() started; cleanup() starts at most once, never while a
//     next() is outstanding, exactly once by the end when next() was ever started, and the consumer's result arrives
//     after every started source's cleanup has completed; operation states are destroyed exactly once and never while
//     in flight; a stop request reaches the source (in-flight next observes it before request_stop returns; a next
//     started afterwards sees a stopped token)
//   at the consumer:
//     the observed elements are a prefix of the sequence the adaptor definitions prescribe for the source's elements
//     (exactly that sequence, then done/error, when no stop and no trigger cuts it short); reduce_stream's value is the
//     fold over precisely the observed elements; errors are the injected ones; stop_immediately completes the
//     outstanding next() with done inside request_stop()
#include "kit/case.hpp"
#include "kit/sr.hpp"

#include <unifex/adapt_stream.hpp>
#include <unifex/any_scheduler.hpp>
#include <unifex/cleanup_adapt_stream.hpp>
#include <unifex/delay.hpp>
#include <unifex/filter_stream.hpp>
#include <unifex/for_each.hpp>
#include <unifex/never.hpp>
#include <unifex/next_adapt_stream.hpp>
#include <unifex/on_stream.hpp>
#include <unifex/range_stream.hpp>
#include <unifex/reduce_stream.hpp>
#include <unifex/single.hpp>
#include <unifex/stop_immediately.hpp>
#include <unifex/take_until.hpp>
#include <unifex/then.hpp>
#include <unifex/transform_stream.hpp>
#include <unifex/type_erased_stream.hpp>
#include <unifex/typed_via_stream.hpp>
#include <unifex/via_stream.hpp>

#include <chrono>
#include <set>

namespace {
const char* P = "C13";
using sr::HStopSource; using sr::HStopToken;

enum { VALUE = 0, ERROR = 1, DONE = 2 };
struct Injected { long k; };
struct SrcFailure { int src; int what; };   // what: 0 next, 1 cleanup
long err_code(const std::exception_ptr& e) {
  try { std::rethrow_exception(e); }
  catch (const Injected&) { return 1000000; }
  catch (const SrcFailure& f) { return 2000000 + f.src * 10 + f.what; }
  catch (...) { return 999; }
}

struct SrcSpec {
  int len = 0;
  int end = 0;              // after len elements: 0 done, 1 error, 2 never (pends until stopped)
  uint32_t timing = 0;      // bit i: next() call i completes deferred
  int on_stop = 1;          // 0 ignore, 1 done inside the stop callback (and at start when already stopped), 2 deferred done
  int cl_timing = 0;        // cleanup deferred?
  int cl_err = 0;           // cleanup completes with error
};
struct NextRec { long t_start = 0, t_complete = -1, t_stop_seen = -1; bool stopped_at_start = false; int chan = -1; };
struct SrcState {
  SrcSpec spec; bool used = false;
  int pos = 0; bool ended = false;
  int next_started = 0, next_completed = 0; bool next_active = false;
  int cleanup_started = 0, cleanup_completed = 0;
  long t_cleanup_start = -1, t_cleanup_done = -1;
  std::vector<NextRec> nexts; std::vector<long> delivered;
};
struct Ev { int src; int kind; void* op; void (*fire)(void*, int); };   // kind 0 next natural, 1 next done-after-stop, 2 cleanup, 3 ctx item

struct Env {
  long seq = 0;
  SrcState src[3];
  std::vector<Ev> pending;
  std::set<const void*> live_ops;
  HStopSource root_ss;
  bool stop_requested = false; long t_stop_begin = -1, t_stop_end = -1;
  // functors
  long calls = 0, throw_at = -1; bool fault_fired = false;
  int filt_mod = 2, filt_rem = 0;
  // consumer observations
  std::vector<long> seen; std::vector<long> t_seen;
  int root_signals = 0, root_chan = -1; long root_val = 0, root_err = 0, t_root = -1;
  int ctx = 0; int items = 0;
  // hand-written consumer
  int hc_last_chan = -1; long hc_err = 0; bool hc_next_active = false; bool hc_done_in_stop = false; bool hc_next_active_at_stop = false;
  // stop requested from inside the k-th call of next(source) (the window between an adaptor's "already stopped?" check and its stop-callback registration)
  int hook_src = -1, hook_call = -1; int next_calls[3] = {0, 0, 0}; std::function<void()> on_hook; bool hook_fired = false, in_hook = false; long hc_starts = 0, hook_in_hc_start = -1;
  bool si_top = false;
  long tick() { return ++seq; }
  void remove_pending(void* op) { for (size_t i = 0; i < pending.size();) if (pending[i].op == op) pending.erase(pending.begin() + (long)i); else ++i; }
  void call_point(const char* who) {
    long k = calls++;
    if (k == throw_at) { fault_fired = true; SR_TR("%s: call #%ld throws", who, k); throw Injected{k}; }
  }
};
Env* g_env = nullptr;
Env& E() { return *g_env; }
long elem_value(int src, int i) { return 1000L * (src + 1) + 7L * i + 3; }

void op_born(const void* p, const char* what) {
  if (!E().live_ops.insert(p).second) SR_FAIL(P, "op_constructed_over_live", "a %s operation state was constructed at %p over a live one", what, p);
}
void op_died(const void* p, const char* what) {
  if (!E().live_ops.erase(p)) SR_FAIL(P, "op_destroyed_twice", "a %s operation state at %p was destroyed although it is not alive (destroyed twice, or never constructed)", what, p);
}

// ---------------------------------------------------------------------------------------------- harness stream
struct HStream {
  int id;
  struct NextSender {
    int id;
    template <template <class...> class V, template <class...> class T> using value_types = V<T<long>>;
    template <template <class...> class V> using error_types = V<std::exception_ptr>;
    static constexpr bool sends_done = true;
    template <class R> struct Op {
      using stop_token_t = unifex::stop_token_type_t<R&>;
      struct StopFn { Op* op; void operator()() noexcept { op->on_stop(); } };
      using cb_t = typename stop_token_t::template callback_type<StopFn>;
      int id; R r; int idx = -1; bool started = false, completed = false, cb_live = false, in_cb_ctor = false, stop_in_ctor = false, pend_nat = false, pend_done = false;
      bool* destroyed_flag = nullptr;
      unifex::manual_lifetime<cb_t> cb;
      long slot = -555555;   // the element is delivered from here (an object inside the next() operation state), by rvalue reference
      Op(int i, R&& rr) : id(i), r((R &&) rr) { op_born(this, "next()"); }
      Op(Op&&) = delete;
      ~Op() {
        slot = -777777;      // a consumer that still reads the element after this operation was destroyed sees this
        op_died(this, "next()");
        if (destroyed_flag) *destroyed_flag = true;
        if (started && !completed) {
          SR_FAIL(P, "next_op_destroyed_in_flight", "the next() operation #%d of source %d was destroyed after start() and before it completed", idx, id);
          if (cb_live) { cb_live = false; cb.destruct(); }
          E().remove_pending(this); E().src[id].next_active = false;
        }
      }
      void start() noexcept {
        Env& e = E(); SrcState& s = e.src[id];
        if (started) { SR_FAIL(P, "next_started_twice", "a next() operation of source %d was started twice", id); return; }
        started = true; idx = s.next_started++;
        s.nexts.emplace_back(); NextRec& nr = s.nexts.back(); nr.t_start = e.tick();
        if (s.next_active) SR_FAIL(P, "next_overlap", "next() #%d of source %d was started while next() #%d is still outstanding", idx, id, idx - 1);
        if (s.cleanup_started) SR_FAIL(P, "next_after_cleanup", "next() #%d of source %d was started after cleanup() of that stream had been started", idx, id);
        s.next_active = true;
        auto tok = unifex::get_stop_token(r);
        nr.stopped_at_start = tok.stop_requested();
        SR_TR("src%d: next#%d started (token stopped=%d)", id, idx, (int)nr.stopped_at_start);
        bool destroyed = false; destroyed_flag = &destroyed;
        cb_live = true; in_cb_ctor = true;
        cb.construct(tok, StopFn{this});
        in_cb_ctor = false;
        if (stop_in_ctor) on_stop();
        if (destroyed) return;
        destroyed_flag = nullptr;
        if (completed || pend_done) return;
        bool deferred = (s.spec.timing >> (idx & 31)) & 1u;
        if (s.pos >= s.spec.len && s.spec.end == 2) { SR_TR("src%d: next#%d pends until stopped", id, idx); return; }
        if (!deferred) complete_natural();
        else { pend_nat = true; e.pending.push_back(Ev{id, 0, this, [](void* p, int k) { static_cast<Op*>(p)->fire(k); }}); }
      }
      void on_stop() noexcept {
        if (in_cb_ctor) { stop_in_ctor = true; return; }
        Env& e = E(); SrcState& s = e.src[id];
        NextRec& nr = s.nexts[(size_t)idx];
        if (nr.t_stop_seen >= 0) return;
        nr.t_stop_seen = e.tick();
        SR_TR("src%d: next#%d observes stop", id, idx);
        if (completed) return;
        if (s.spec.on_stop == 1) { e.remove_pending(this); pend_nat = false; complete(DONE); }
        else if (s.spec.on_stop == 2 && !pend_done) {
          e.remove_pending(this); pend_nat = false; pend_done = true;
          e.pending.push_back(Ev{id, 1, this, [](void* p, int k) { static_cast<Op*>(p)->fire(k); }});
        }
      }
      void fire(int kind) noexcept { if (kind == 1) complete(DONE); else complete_natural(); }
      void complete_natural() noexcept {
        SrcState& s = E().src[id];
        if (s.pos < s.spec.len) complete(VALUE);
        else complete(s.spec.end == 1 ? ERROR : DONE);
      }
      void complete(int chan) noexcept {
        Env& e = E(); SrcState& s = e.src[id];
        if (completed) { SR_FAIL("*", "harness_double_complete", "harness bug: next of source %d completed twice", id); return; }
        completed = true; s.next_completed++; s.next_active = false;
        NextRec& nr = s.nexts[(size_t)idx]; nr.t_complete = e.tick(); nr.chan = chan;
        if (cb_live) { cb_live = false; cb.destruct(); }
        int I = id, X = idx;
        if (chan == VALUE) {
          long v = elem_value(I, s.pos++); s.delivered.push_back(v);
          SR_TR("src%d: next#%d -> value %ld", I, X, v);
          slot = v;
          unifex::set_value(std::move(r), std::move(slot));
        } else if (chan == ERROR) {
          s.ended = true; SR_TR("src%d: next#%d -> error", I, X);
          unifex::set_error(std::move(r), std::make_exception_ptr(SrcFailure{I, 0}));
        } else {
          if (s.pos >= s.spec.len && s.spec.end == 0) s.ended = true;
          SR_TR("src%d: next#%d -> done", I, X);
          unifex::set_done(std::move(r));
        }
      }
    };
    template <class R> friend Op<unifex::remove_cvref_t<R>> tag_invoke(unifex::tag_t<unifex::connect>, NextSender s, R&& r) { return Op<unifex::remove_cvref_t<R>>{s.id, (R &&) r}; }
  };
  struct CleanupSender {
    int id;
    template <template <class...> class V, template <class...> class T> using value_types = V<>;
    template <template <class...> class V> using error_types = V<std::exception_ptr>;
    static constexpr bool sends_done = true;
    template <class R> struct Op {
      int id; R r; bool started = false, completed = false;
      Op(int i, R&& rr) : id(i), r((R &&) rr) { op_born(this, "cleanup()"); }
      Op(Op&&) = delete;
      ~Op() {
        op_died(this, "cleanup()");
        if (started && !completed) { SR_FAIL(P, "cleanup_op_destroyed_in_flight", "the cleanup() operation of source %d was destroyed after start() and before it completed", id); E().remove_pending(this); }
      }
      void start() noexcept {
        Env& e = E(); SrcState& s = e.src[id];
        if (started) { SR_FAIL(P, "cleanup_started_twice", "a cleanup() operation of source %d was started twice", id); return; }
        started = true; s.cleanup_started++;
        if (s.cleanup_started > 1) SR_FAIL(P, "cleanup_twice", "cleanup() of source %d was started %d times", id, s.cleanup_started);
        if (s.next_active) SR_FAIL(P, "cleanup_during_next", "cleanup() of source %d was started while its next() #%d is still outstanding", id, s.next_started - 1);
        s.t_cleanup_start = e.tick();
        SR_TR("src%d: cleanup started", id);
        if (!s.spec.cl_timing) complete();
        else e.pending.push_back(Ev{id, 2, this, [](void* p, int) { static_cast<Op*>(p)->complete(); }});
      }
      void complete() noexcept {
        Env& e = E(); SrcState& s = e.src[id];
        completed = true; s.cleanup_completed++; s.t_cleanup_done = e.tick();
        int I = id;
        SR_TR("src%d: cleanup -> %s", I, s.spec.cl_err ? "error" : "done");
        if (s.spec.cl_err) unifex::set_error(std::move(r), std::make_exception_ptr(SrcFailure{I, 1}));
        else unifex::set_done(std::move(r));
      }
    };
    template <class R> friend Op<unifex::remove_cvref_t<R>> tag_invoke(unifex::tag_t<unifex::connect>, CleanupSender s, R&& r) { return Op<unifex::remove_cvref_t<R>>{s.id, (R &&) r}; }
  };
  friend NextSender tag_invoke(unifex::tag_t<unifex::next>, HStream& s) noexcept {
    Env& e = E(); int k = e.next_calls[s.id]++;
    if (e.hook_src == s.id && e.hook_call == k && e.on_hook && !e.hook_fired) { e.hook_fired = true; e.in_hook = true; SR_TR("src%d: next() call #%d requests stop on the consumer's stop source", s.id, k); e.on_hook(); e.in_hook = false; }
    return NextSender{s.id};
  }
  friend CleanupSender tag_invoke(unifex::tag_t<unifex::cleanup>, HStream& s) noexcept { return CleanupSender{s.id}; }
};

// ---------------------------------------------------------------------------------------------- scheduler (logical contexts; also a time scheduler)
struct XSched {
  int ctx = 1;
  struct sender {
    int ctx;
    template <template <class...> class V, template <class...> class T> using value_types = V<T<>>;
    template <template <class...> class V> using error_types = V<>;
    static constexpr bool sends_done = true;
    static constexpr unifex::blocking_kind blocking = unifex::blocking_kind::never;
    template <class R> struct op {
      int ctx; R r; bool started = false, done = false;
      op(int c, R&& rr) : ctx(c), r((R &&) rr) {}
      op(op&&) = delete;
      void start() noexcept {
        started = true; E().items++;
        E().pending.push_back(Ev{-1, 3, this, [](void* p, int) { static_cast<op*>(p)->fire(); }});
      }
      void fire() noexcept {
        done = true; int prev = E().ctx; E().ctx = ctx;
        if (unifex::get_stop_token(r).stop_requested()) unifex::set_done(std::move(r)); else unifex::set_value(std::move(r));
        E().ctx = prev;
      }
      ~op() { if (started && !done) { SR_FAIL(P, "ctx_item_destroyed_pending", "a schedule() operation was destroyed while still enqueued"); E().remove_pending(this); } }
    };
    template <class R> friend op<unifex::remove_cvref_t<R>> tag_invoke(unifex::tag_t<unifex::connect>, sender s, R&& r) { return op<unifex::remove_cvref_t<R>>{s.ctx, (R &&) r}; }
  };
  sender schedule() const noexcept { return sender{ctx}; }
  template <class D> sender schedule_after(D) const noexcept { return sender{ctx}; }
  std::chrono::steady_clock::time_point now() const noexcept { return {}; }
  friend bool operator==(XSched a, XSched b) noexcept { return a.ctx == b.ctx; }
  friend bool operator!=(XSched a, XSched b) noexcept { return a.ctx != b.ctx; }
};

// pass-through sender adaptor recording that it was applied (adapt_stream / cleanup_adapt_stream)
template <class S> struct Probe {
  S s; int* counter;
  template <template <class...> class V, template <class...> class T> using value_types = unifex::sender_value_types_t<S, V, T>;
  template <template <class...> class V> using error_types = unifex::sender_error_types_t<S, V>;
  static constexpr bool sends_done = unifex::sender_traits<S>::sends_done;
  template <class R> friend auto tag_invoke(unifex::tag_t<unifex::connect>, Probe&& p, R&& r) { ++*p.counter; return unifex::connect(std::move(p.s), (R &&) r); }
};
int g_probe_next = 0, g_probe_cleanup = 0, g_probe_both = 0;

// ---------------------------------------------------------------------------------------------- pipeline catalogue
enum StageKind { K_T, K_F, K_SI, K_TE, K_VIA, K_ON, K_TVIA, K_NA, K_CA, K_AD, K_AD2, K_DL, K_TU };
struct Desc { int src = -1; std::vector<int> stages; std::vector<int> triggers; std::string text; int nsrc = 0; bool is_int = false; };
enum { SRC_RANGE = 10, SRC_SINGLE = 11, SRC_NEVER = 12 };
constexpr int RANGE_N = 5;

long f_transform(long v) { return v * 3 + 1; }
long f_nadapt(long v) { return v + 100000; }

template <int I> struct Src { using value = long; static auto make() { E().src[I].used = true; return HStream{I}; } static void desc(Desc& d) { d.src = I; d.nsrc = std::max(d.nsrc, I + 1); d.text += vk::sfmt("src%d", I); } };
struct Rng { using value = int; static auto make() { return unifex::range_stream{RANGE_N}; } static void desc(Desc& d) { d.src = SRC_RANGE; d.is_int = true; d.text += "range_stream(5)"; } };
struct Sgl { using value = long; static auto make() { E().src[2].used = true; return unifex::single(HStream::NextSender{2}); } static void desc(Desc& d) { d.src = SRC_SINGLE; d.nsrc = 3; d.text += "single(src2.next)"; } };
struct Nev { using value = long; static auto make() { return unifex::never_stream{}; } static void desc(Desc& d) { d.src = SRC_NEVER; d.text += "never_stream"; } };

#define UNARY(NAME, KIND, TEXT, EXPR)                                                                 \
  template <class Pp> struct NAME { using value = typename Pp::value;                                  \
    static auto make() { auto inner = Pp::make(); (void)sizeof(inner); return EXPR; }                 \
    static void desc(Desc& d) { d.text += TEXT "("; Pp::desc(d); d.text += ")"; d.stages.push_back(KIND); } };

UNARY(T_, K_T, "transform", unifex::transform_stream(std::move(inner), [](auto v) { E().call_point("transform"); return (decltype(v))f_transform(v); }))
UNARY(F_, K_F, "filter", unifex::filter_stream(std::move(inner), [](const auto& v) { E().call_point("filter"); return ((long)v % E().filt_mod) != E().filt_rem; }))
UNARY(SI_, K_SI, "stop_immediately", unifex::stop_immediately<value>(std::move(inner)))
UNARY(TE_, K_TE, "type_erase", unifex::type_erase<value>(std::move(inner)))
UNARY(VIA_, K_VIA, "via_stream", unifex::via_stream(XSched{1}, std::move(inner)))
UNARY(ON_, K_ON, "on_stream", unifex::on_stream(XSched{2}, std::move(inner)))
#pragma GCC diagnostic push
#pragma GCC diagnostic ignored "-Wdeprecated-declarations"
UNARY(TVIA_, K_TVIA, "typed_via_stream", unifex::typed_via_stream(XSched{1}, std::move(inner)))
#pragma GCC diagnostic pop
UNARY(NA_, K_NA, "next_adapt", unifex::next_adapt_stream(std::move(inner), [](auto&& s) { return unifex::then((decltype(s))s, [](auto v) { E().call_point("next_adapt"); return (decltype(v))f_nadapt(v); }); }))
UNARY(CA_, K_CA, "cleanup_adapt", unifex::cleanup_adapt_stream(std::move(inner), [](auto&& s) { return Probe<unifex::remove_cvref_t<decltype(s)>>{(decltype(s))s, &g_probe_cleanup}; }))
UNARY(AD_, K_AD, "adapt", unifex::adapt_stream(std::move(inner), [](auto&& s) { return Probe<unifex::remove_cvref_t<decltype(s)>>{(decltype(s))s, &g_probe_both}; }))
UNARY(AD2_, K_AD2, "adapt2", unifex::adapt_stream(std::move(inner), [](auto&& s) { return Probe<unifex::remove_cvref_t<decltype(s)>>{(decltype(s))s, &g_probe_next}; }, [](auto&& s) { return Probe<unifex::remove_cvref_t<decltype(s)>>{(decltype(s))s, &g_probe_cleanup}; }))
UNARY(DL_, K_DL, "delay", unifex::delay(std::move(inner), XSched{3}, std::chrono::milliseconds(1)))

template <class Pp, class Q> struct TU_ {
  using value = typename Pp::value;
  static auto make() { auto a = Pp::make(); auto b = Q::make(); return unifex::take_until(std::move(a), std::move(b)); }
  static void desc(Desc& d) {
    d.text += "take_until("; Pp::desc(d); d.text += ", ";
    Desc q; Q::desc(q); d.text += q.text; d.text += ")";
    d.nsrc = std::max(d.nsrc, q.nsrc); d.triggers.push_back(q.src); for (int t : q.triggers) d.triggers.push_back(t);
    d.stages.push_back(K_TU);
  }
};

// ---------------------------------------------------------------------------------------------- consumers
struct RootR {
  void finish(int chan, long v, long err) noexcept {
    Env& e = E();
    e.root_signals++;
    if (e.root_signals > 1) { SR_FAIL(P, "consumer_completed_twice", "the consumer's receiver was completed %d times", e.root_signals); return; }
    e.root_chan = chan; e.root_val = v; e.root_err = err; e.t_root = e.tick();
    e.root_ss.mark_root_completed();
    SR_TR("root: %s %ld", chan == VALUE ? "value" : chan == ERROR ? "error" : "done", chan == VALUE ? v : err);
  }
  void set_value(long v) && noexcept { finish(VALUE, v, 0); }
  void set_value() && noexcept { finish(VALUE, -1, 0); }
  void set_error(std::exception_ptr ep) && noexcept { finish(ERROR, 0, err_code(ep)); }
  void set_done() && noexcept { finish(DONE, 0, 0); }
  friend HStopToken tag_invoke(unifex::tag_t<unifex::get_stop_token>, const RootR&) noexcept { return HStopToken{&E().root_ss}; }
  friend XSched tag_invoke(unifex::tag_t<unifex::get_scheduler>, const RootR&) noexcept { return XSched{0}; }
};

long fold_step(long acc, long v) { return acc * 31 + v + 1; }

struct RunnerBase { virtual ~RunnerBase() {} virtual void start() = 0; };
template <class Sender> struct SenderRunner final : RunnerBase {
  using op_t = unifex::connect_result_t<Sender, RootR>;
  unifex::manual_lifetime<op_t> op; bool live = false;
  explicit SenderRunner(Sender&& s) { op.construct_with([&] { return unifex::connect(std::move(s), RootR{}); }); live = true; }
  void start() override { unifex::start(op.get()); }
  ~SenderRunner() override { if (live) op.destruct(); }
};
// hand-written consumer: next() until done/error or `limit` elements, then cleanup(); completes the root after cleanup
template <class Stream> struct HandConsumer final : RunnerBase {
  struct NextR {
    HandConsumer* c;
    template <class V> void set_value(V&& v) && noexcept { c->on_next(VALUE, (long)v, 0); }
    void set_error(std::exception_ptr ep) && noexcept { c->on_next(ERROR, 0, err_code(ep)); }
    template <class X> void set_error(X&&) && noexcept { c->on_next(ERROR, 0, 999); }
    void set_done() && noexcept { c->on_next(DONE, 0, 0); }
    friend HStopToken tag_invoke(unifex::tag_t<unifex::get_stop_token>, const NextR&) noexcept { return HStopToken{&E().root_ss}; }
    friend XSched tag_invoke(unifex::tag_t<unifex::get_scheduler>, const NextR&) noexcept { return XSched{0}; }
  };
  struct CleanR {
    HandConsumer* c;
    void set_error(std::exception_ptr ep) && noexcept { c->on_cleanup(ERROR, err_code(ep)); }
    template <class X> void set_error(X&&) && noexcept { c->on_cleanup(ERROR, 999); }
    void set_done() && noexcept { c->on_cleanup(DONE, 0); }
    friend XSched tag_invoke(unifex::tag_t<unifex::get_scheduler>, const CleanR&) noexcept { return XSched{0}; }
  };
  Stream s; int limit;
  unifex::manual_lifetime<unifex::next_operation_t<Stream, NextR>> nop;
  unifex::manual_lifetime<unifex::cleanup_operation_t<Stream, CleanR>> cop; bool cop_live = false;
  HandConsumer(Stream&& st, int lim) : s(std::move(st)), limit(lim) {}
  ~HandConsumer() override { if (cop_live) cop.destruct(); }
  void start() override { start_next(); }
  void start_next() {
    nop.construct_with([&] { return unifex::connect(unifex::next(s), NextR{this}); });
    Env& e = E();
    e.hc_next_active = true;
    long my = ++e.hc_starts; bool stopped_before = e.stop_requested;
    unifex::start(nop.get());
    // a stop request issued while this next() was being started (from inside the source's next() call): stop_immediately completes it at once
    if (e.si_top && !stopped_before && e.stop_requested && e.hook_fired && e.hc_starts == my && e.hc_next_active)
      SR_FAIL(P, "stop_immediately_not_immediate", "stop_immediately: a stop request arrived while next() was being started (after the adaptor had looked at its stop token) and the next() operation is still outstanding when start() returns");
  }
  void on_next(int chan, long v, long err) noexcept {
    Env& e = E();
    if (!e.hc_next_active) { SR_FAIL(P, "next_completed_twice", "a next() operation delivered a second completion (%s) to the consumer", chan == VALUE ? "value" : chan == ERROR ? "error" : "done"); return; }
    e.hc_next_active = false;
    nop.destruct();
    if (chan == VALUE) {
      e.seen.push_back(v); e.t_seen.push_back(e.tick());
      SR_TR("consumer: element %ld", v);
      if (limit >= 0 && (int)e.seen.size() >= limit) { SR_TR("consumer: leaves early after %d element(s)", limit); start_cleanup(); }
      else start_next();
    } else {
      e.hc_last_chan = chan; e.hc_err = err;
      SR_TR("consumer: next -> %s", chan == ERROR ? "error" : "done");
      start_cleanup();
    }
  }
  void start_cleanup() {
    cop.construct_with([&] { return unifex::connect(unifex::cleanup(s), CleanR{this}); }); cop_live = true;
    unifex::start(cop.get());
  }
  void on_cleanup(int chan, long err) noexcept {
    Env& e = E();
    if (chan == ERROR) RootR{}.finish(ERROR, 0, err);
    else if (e.hc_last_chan == ERROR) RootR{}.finish(ERROR, 0, e.hc_err);
    else RootR{}.finish(DONE, 0, 0);
  }
};

template <class Pipe> RunnerBase* make_runner(int consumer, int limit) {
  using V = typename Pipe::value;
  if (consumer == 0) {
    auto s = unifex::reduce_stream(Pipe::make(), 0L, [](long acc, V v) {
      Env& e = E(); e.call_point("reducer"); e.seen.push_back((long)v); e.t_seen.push_back(e.tick()); SR_TR("reducer: element %ld", (long)v); return fold_step(acc, (long)v); });
    return new SenderRunner<decltype(s)>(std::move(s));
  } else if (consumer == 1) {
    auto s = unifex::for_each(Pipe::make(), [](V v) { Env& e = E(); e.call_point("for_each"); e.seen.push_back((long)v); e.t_seen.push_back(e.tick()); SR_TR("for_each: element %ld", (long)v); });
    return new SenderRunner<decltype(s)>(std::move(s));
  } else {
    using S = decltype(Pipe::make());
    return new HandConsumer<S>(Pipe::make(), limit);
  }
}

struct PipeEntry { void (*desc)(Desc&); RunnerBase* (*make)(int, int); };
template <class Pipe> constexpr PipeEntry entry() { return PipeEntry{&Pipe::desc, &make_runner<Pipe>}; }

using S0 = Src<0>; using S1 = Src<1>; using S2 = Src<2>;
const PipeEntry PIPES[] = {
  entry<S0>(), entry<T_<S0>>(), entry<F_<S0>>(), entry<T_<F_<S0>>>(), entry<F_<T_<S0>>>(),
  entry<SI_<S0>>(), entry<TE_<S0>>(), entry<TU_<S0, S1>>(), entry<VIA_<S0>>(), entry<ON_<S0>>(),
  entry<TVIA_<S0>>(), entry<NA_<S0>>(), entry<CA_<S0>>(), entry<AD_<S0>>(), entry<AD2_<S0>>(),
  entry<DL_<S0>>(), entry<Rng>(), entry<Sgl>(), entry<Nev>(), entry<T_<Rng>>(),
  entry<F_<Rng>>(), entry<SI_<TU_<S0, S1>>>(), entry<TU_<SI_<S0>, S1>>(), entry<TE_<TU_<S0, S1>>>(), entry<TU_<TE_<S0>, S1>>(),
  entry<TE_<VIA_<S0>>>(), entry<TE_<SI_<S0>>>(), entry<F_<SI_<T_<S0>>>>(), entry<TU_<S0, Nev>>(), entry<TU_<Rng, S1>>(),
  entry<TU_<Nev, S1>>(), entry<SI_<VIA_<S0>>>(), entry<TU_<VIA_<S0>, S1>>(), entry<TE_<F_<TU_<T_<S0>, S1>>>>(), entry<TU_<S0, TU_<S1, S2>>>(),
  entry<SI_<SI_<S0>>>(), entry<TE_<TE_<S0>>>(), entry<VIA_<Rng>>(), entry<SI_<Nev>>(), entry<TU_<TU_<S0, S1>, S2>>(),
  entry<SI_<Rng>>(), entry<TE_<Rng>>(), entry<ON_<SI_<S0>>>(), entry<TU_<S0, SI_<S1>>>(), entry<DL_<TU_<S0, S1>>>(),
  entry<T_<Sgl>>(), entry<TU_<Sgl, S1>>(), entry<CA_<TU_<S0, S1>>>(), entry<AD_<SI_<S0>>>(), entry<NA_<F_<S0>>>(),
};
constexpr int NPIPES = (int)(sizeof(PIPES) / sizeof(PIPES[0]));

// ---------------------------------------------------------------------------------------------- model
struct Expect { std::vector<long> seq; int end = DONE; long err = 0; bool fault_hits = false; };
// The sequence the adaptor definitions prescribe when nothing cuts it short (no stop, no trigger firing): the source's
// elements pushed through the stages in order; a throwing functor ends it with that error.  `consumer_calls`: the
// consumer's functor is one more call point per element that reaches it.
Expect model_full(const Desc& d, Env& e, bool consumer_calls) {
  Expect x; std::vector<long> in; int end = DONE; long err = 0;
  if (d.src >= 0 && d.src < 3) {
    const SrcSpec& sp = e.src[d.src].spec;
    for (int i = 0; i < sp.len; ++i) in.push_back(elem_value(d.src, i));
    end = sp.end == 1 ? ERROR : sp.end == 2 ? -2 : DONE; err = 2000000 + d.src * 10;
  } else if (d.src == SRC_RANGE) { for (int i = 0; i < RANGE_N; ++i) in.push_back(i); }
  else if (d.src == SRC_SINGLE) {
    const SrcSpec& sp = e.src[2].spec;
    if (sp.len > 0) in.push_back(elem_value(2, 0));
    else if (sp.end == 1) { end = ERROR; err = 2000000 + 20; }
    else if (sp.end == 2) end = -2;
  } else end = -2;
  long calls = 0;
  for (long v : in) {
    bool dropped = false;
    for (int k : d.stages) {
      if (k == K_T || k == K_F || k == K_NA) {
        if (calls++ == e.throw_at) { x.end = ERROR; x.err = 1000000; x.fault_hits = true; return x; }
        if (k == K_T) v = d.is_int ? (long)(int)f_transform(v) : f_transform(v);
        else if (k == K_NA) v = f_nadapt(v);
        else if (!((v % e.filt_mod) != e.filt_rem)) { dropped = true; break; }
      }
    }
    if (dropped) continue;
    if (consumer_calls && calls++ == e.throw_at) { x.end = ERROR; x.err = 1000000; x.fault_hits = true; return x; }
    x.seq.push_back(v);
  }
  x.end = end; x.err = err;
  return x;
}

std::string seq_str(const std::vector<long>& v) { std::string s = "["; for (size_t i = 0; i < v.size(); ++i) { if (i) s += ","; s += std::to_string(v[i]); } return s + "]"; }

}  // namespace

extern "C" const char* vk_harness_name() { return "c13_streams"; }
const char* vk_nontrivial_rule() {
  return "a case = pipeline (one of 50 compositions of range_stream/single/never_stream/harness sources with transform/filter/stop_immediately/type_erase/take_until/via/typed_via/on/next_adapt/cleanup_adapt/adapt/delay, depth <= 4) x consumer "
         "(reduce_stream / for_each / hand-written consumer that may leave after k elements) x per-source behaviour (length 0..6, ends with done/error/never, per-call inline or deferred completion, reaction to stop: ignore / done in callback / deferred done, "
         "cleanup inline or deferred, cleanup done or error) x injected functor fault x stop step x order of deferred completions. non-trivial = at least 2 steps were driver-ordered (deferred completions / context items) and one of: a stop request "
         "arrived while a next() or cleanup() was outstanding, a take_until trigger fired while the source's next() was outstanding, an error or fault was injected, the consumer left early, a cleanup completed deferred. distinct = hash of the decoded case";
}

void vk_run_case(vk::Choice& c) {
  auto& cx = vk::ctx();
  Env env; g_env = &env; Env& e = env;
  g_probe_next = g_probe_cleanup = g_probe_both = 0;
  int forced = (int)cx.argi("pipe", -1);
  // --require-stage=K: only pipelines containing that adaptor (C18 runs the pipelines with a type_erase stage)
  static std::vector<int> subset; static bool subset_done = false;
  if (!subset_done) {
    subset_done = true; long rk = cx.arg("require-stage") == "type_erase" ? (long)K_TE : -1;
    const bool cancel = cx.arg("require-stage") == "cancel";   // C04: the pipelines with a cancellation-aware adaptor (take_until, stop_immediately)
    for (int i = 0; i < NPIPES; ++i) { Desc t; PIPES[i].desc(t); bool has = rk < 0 && !cancel; for (int k : t.stages) if (k == rk || (cancel && (k == K_TU || k == K_SI))) has = true; if (has) subset.push_back(i); }
  }
  int pi = forced >= 0 ? forced % NPIPES : subset[c.upto((uint32_t)subset.size())];
  Desc d; PIPES[pi].desc(d);
  int consumer = (int)c.upto(3);
  int limit = -1;
  if (consumer == 2 && c.chance(1, 3)) limit = (int)c.upto(4);   // 0: cleanup right after ... (limit 0 still calls next once)
  if (limit == 0) limit = 1;
  for (int i = 0; i < 3; ++i) {
    SrcSpec& sp = e.src[i].spec;
    sp.len = (int)c.upto(7);
    sp.end = c.chance(1, 4) ? (int)c.upto(3) : 0;
    sp.timing = c.chance(2, 3) ? c.upto(256) : 0;
    sp.on_stop = 1 + (int)c.upto(3); if (sp.on_stop == 3) sp.on_stop = 0;   // 1, 2, 0
    sp.cl_timing = (int)c.upto(2);
    sp.cl_err = c.chance(1, 8) ? 1 : 0;
    if (sp.end == 2 && sp.on_stop == 0) sp.on_stop = 1;     // a never-ending tail must react to stop or the case cannot finish
    if (i >= d.nsrc) sp = SrcSpec();
  }
  e.filt_mod = 2 + (int)c.upto(3); e.filt_rem = (int)c.upto((uint32_t)e.filt_mod);
  e.throw_at = c.chance(1, 6) ? (long)c.upto(12) : -1;
  int stop_at = c.chance(1, 2) ? (int)c.upto(12) : -1;
  cx.desc = vk::sfmt("pipe#%d %s; consumer=%s limit=%d; ", pi, d.text.c_str(), consumer == 0 ? "reduce_stream" : consumer == 1 ? "for_each" : "hand", limit);
  for (int i = 0; i < d.nsrc; ++i) { auto& sp = e.src[i].spec; cx.desc += vk::sfmt("src%d{len=%d end=%s timing=%#x on_stop=%d cleanup=%s%s} ", i, sp.len, sp.end == 0 ? "done" : sp.end == 1 ? "error" : "never", sp.timing, sp.on_stop, sp.cl_timing ? "deferred" : "inline", sp.cl_err ? ",error" : ""); }
  cx.desc += vk::sfmt("filter(v%%%d!=%d) throw_at=%ld stop_at=%d", e.filt_mod, e.filt_rem, e.throw_at, stop_at);

  bool has_tu = false, has_si_top = false, has_dl = false;
  for (int k : d.stages) { if (k == K_TU) has_tu = true; if (k == K_DL) has_dl = true; }
  if (!d.stages.empty() && d.stages.back() == K_SI) has_si_top = true;
  (void)has_dl;

  e.si_top = has_si_top;
  // derived from the hash of everything decoded so far (consumes no bytes: older replays keep their event order); --legacy=1 switches it off
  if (cx.argi("legacy", 0) == 0 && d.src >= 0 && d.src < 3) {
    uint64_t hh = c.h;
    if (hh % 4 == 0) { e.hook_src = d.src; e.hook_call = (int)((hh / 4) % 4); }
    c.mix((uint64_t)(e.hook_call + 2));
    if (e.hook_call >= 0) cx.desc += vk::sfmt(" stop-inside-next()-call#%d", e.hook_call);
  }
  RunnerBase* runner = PIPES[pi].make(consumer, limit);
  int driver_steps = 0; bool stop_inflight = false, trigger_inflight = false, deferred_cleanup_fired = false;
  auto do_stop = [&] {
    if (e.stop_requested) return;
    e.stop_requested = true;
    for (int i = 0; i < 3; ++i) if (e.src[i].next_active || (e.src[i].cleanup_started && !e.src[i].cleanup_completed)) stop_inflight = true;
    e.hc_next_active_at_stop = e.hc_next_active;
    size_t seen_before = e.seen.size(); int sig_before = e.root_signals; bool hc_active = e.hc_next_active;
    SR_TR("driver: request_stop()");
    e.t_stop_begin = e.tick();
    e.root_ss.request_stop();
    e.t_stop_end = e.tick();
    (void)seen_before; (void)sig_before;
    if (consumer == 2 && has_si_top && hc_active && !e.in_hook) {
      if (e.hc_next_active) SR_FAIL(P, "stop_immediately_not_immediate", "stop_immediately: the consumer's outstanding next() was not completed inside request_stop() [%s]", d.text.c_str());
      else e.hc_done_in_stop = true;
    }
  };
  SR_TR("case: %s", cx.desc.c_str());
  e.on_hook = do_stop;
  runner->start();
  for (int step = 0; step < 4000; ++step) {
    if (e.root_signals > 0 && e.pending.empty()) break;
    if (!e.stop_requested && stop_at >= 0 && step >= stop_at) { do_stop(); continue; }
    if (e.pending.empty()) {
      if (e.stop_requested) break;
      cx.label("forced-stop-at-quiescence");
      do_stop(); continue;
    }
    size_t k = c.upto((uint32_t)e.pending.size());
    Ev ev = e.pending[k]; e.pending.erase(e.pending.begin() + (long)k);
    driver_steps++;
    if (ev.kind == 2) deferred_cleanup_fired = true;
    // a trigger source completing while a main source next is outstanding
    if (ev.kind == 0 && has_tu) for (int t : d.triggers) if (t == ev.src) for (int i = 0; i < 3; ++i) if (i != ev.src && e.src[i].next_active) trigger_inflight = true;
    SR_TR("driver: fire %s of src%d", ev.kind == 0 ? "next completion" : ev.kind == 1 ? "done-after-stop" : ev.kind == 2 ? "cleanup completion" : "context item", ev.src);
    ev.fire(ev.op, ev.kind);
  }

  // ------------------------------------------------------------------ oracles
  bool completed = e.root_signals > 0;
  if (!completed) {
    std::string inflight;
    for (int i = 0; i < 3; ++i) if (e.src[i].used) inflight += vk::sfmt("src%d{next %d/%d cleanup %d/%d} ", i, e.src[i].next_completed, e.src[i].next_started, e.src[i].cleanup_completed, e.src[i].cleanup_started);
    SR_FAIL(P, "lost_completion", "every operation the pipeline started has completed and a stop was requested, but the consumer never received its result (%s) [%s]", inflight.c_str(), d.text.c_str());
  }
  for (int i = 0; i < 3; ++i) {
    SrcState& s = e.src[i]; if (!s.used) continue;
    bool via_single = (d.src == SRC_SINGLE && i == 2);
    if (completed && !via_single) {
      if (s.next_started > 0 && s.cleanup_started == 0) SR_FAIL(P, "cleanup_missing", "next() of source %d was started %d time(s) but its cleanup() was never run before the consumer got its result [%s]", i, s.next_started, d.text.c_str());
      if (s.cleanup_started > 0 && s.cleanup_completed == 0) SR_FAIL(P, "result_before_cleanup", "the consumer got its result while cleanup() of source %d was still outstanding [%s]", i, d.text.c_str());
      if (s.cleanup_completed > 0 && s.t_cleanup_done > e.t_root) SR_FAIL(P, "result_before_cleanup", "the consumer got its result (t=%ld) before cleanup() of source %d completed (t=%ld) [%s]", e.t_root, i, s.t_cleanup_done, d.text.c_str());
      if (s.next_active) SR_FAIL(P, "result_before_next_completed", "the consumer got its result while next() #%d of source %d is still outstanding [%s]", s.next_started - 1, i, d.text.c_str());
    }
    // stop propagation, measured at the source
    // (take_until's trigger is tied to the consumer's token only while one of the adapted next() operations is outstanding: main chain only)
    bool is_trigger = false; for (int t : d.triggers) if (t == i) is_trigger = true;
    if (e.stop_requested && !is_trigger) for (size_t n = 0; n < s.nexts.size(); ++n) {
      NextRec& nr = s.nexts[n];
      if (nr.t_start > e.t_stop_end && !nr.stopped_at_start)
        SR_FAIL(P, "stop_not_propagated", "next() #%zu of source %d was started after the consumer's stop request had returned, with a token that does not report the stop [%s]", n, i, d.text.c_str());
      if (nr.t_start < e.t_stop_begin && (nr.t_complete < 0 || nr.t_complete > e.t_stop_end) && (nr.t_stop_seen < 0 || nr.t_stop_seen > e.t_stop_end))
        SR_FAIL(P, "stop_not_propagated", "next() #%zu of source %d was outstanding across the consumer's stop request and did not observe it [%s]", n, i, d.text.c_str());
    }
  }

  bool consumer_calls = consumer != 2;
  Expect x = model_full(d, e, consumer_calls);
  // prefix: no element duplicated, invented, reordered or dropped in the middle
  {
    size_t n = std::min(e.seen.size(), x.seq.size()); bool ok = e.seen.size() <= x.seq.size();
    for (size_t i = 0; ok && i < n; ++i) if (e.seen[i] != x.seq[i]) ok = false;
    if (!ok) SR_FAIL(P, "sequence_not_prefix", "the consumer observed %s, which is not a prefix of the sequence the adaptors prescribe for the source's elements, %s [%s]", seq_str(e.seen).c_str(), seq_str(x.seq).c_str(), d.text.c_str());
  }
  bool trigger_can_fire = false;
  for (int t : d.triggers) { if (t >= 0 && t < 3) trigger_can_fire = true; /* any harness trigger completes its first next() somehow */ }
  bool early = limit >= 0 && (int)x.seq.size() >= limit;
  bool cl_err = false; std::set<long> injected;
  for (int i = 0; i < 3; ++i) if (e.src[i].used) {
    if (e.src[i].cleanup_completed && e.src[i].spec.cl_err) { cl_err = true; injected.insert(2000000 + i * 10 + 1); }
    for (auto& nr : e.src[i].nexts) if (nr.chan == ERROR) injected.insert(2000000 + i * 10);
  }
  if (e.fault_fired) injected.insert(1000000);
  bool exact = !e.stop_requested && !trigger_can_fire && completed;
  if (cx.failed) { /* first violation wins */ }
  else if (exact) {
    std::vector<long> want = x.seq; if (early) want.resize((size_t)limit);
    if (e.seen != want) SR_FAIL(P, "sequence_mismatch", "no stop and no trigger: the consumer observed %s, the adaptors prescribe %s%s [%s]", seq_str(e.seen).c_str(), seq_str(want).c_str(), early ? " (consumer left early)" : "", d.text.c_str());
    else if (x.end == -2 && !early) SR_FAIL("*", "harness_model", "harness bug: never-ending sequence completed without stop");
    else {
      int want_chan; long want_val = 0;
      long fold = 0; for (long v : want) fold = fold_step(fold, v);
      if (consumer == 0) { want_chan = VALUE; want_val = fold; } else if (consumer == 1) { want_chan = VALUE; want_val = -1; } else want_chan = DONE;
      bool want_err = (!early && x.end == ERROR) || cl_err;
      if (want_err) {
        if (e.root_chan != ERROR) SR_FAIL(P, "error_lost", "an error was injected (%s) but the consumer's result is %s [%s]", (!early && x.end == ERROR) ? (x.fault_hits ? "functor threw" : "source next() failed") : "cleanup failed", e.root_chan == VALUE ? "a value" : "done", d.text.c_str());
        else if (!injected.count(e.root_err)) SR_FAIL(P, "error_identity", "the consumer's error (%ld) is none of the injected errors [%s]", e.root_err, d.text.c_str());
      } else if (e.root_chan != want_chan) SR_FAIL(P, "result_channel", "the consumer's result is %s, expected %s [%s]", e.root_chan == VALUE ? "value" : e.root_chan == ERROR ? "error" : "done", want_chan == VALUE ? "value" : "done", d.text.c_str());
      else if (consumer == 0 && e.root_val != want_val) SR_FAIL(P, "fold_mismatch", "reduce_stream completed with %ld, the fold over %s is %ld [%s]", e.root_val, seq_str(want).c_str(), want_val, d.text.c_str());
    }
  } else if (completed) {
    // stop or trigger may cut the sequence: result must still be consistent with what was observed
    if (e.root_chan == VALUE && consumer == 0) {
      long fold = 0; for (long v : e.seen) fold = fold_step(fold, v);
      if (e.root_val != fold) SR_FAIL(P, "fold_mismatch", "reduce_stream completed with %ld, the fold over the observed elements %s is %ld [%s]", e.root_val, seq_str(e.seen).c_str(), fold, d.text.c_str());
    }
    if (e.root_chan == ERROR && !injected.count(e.root_err)) SR_FAIL(P, "error_identity", "the consumer's error (%ld) is none of the injected errors [%s]", e.root_err, d.text.c_str());
    if (e.root_chan == DONE && consumer != 2) SR_FAIL(P, "result_channel", "%s completed with done; a stopped stream fold completes with the partial result [%s]", consumer == 0 ? "reduce_stream" : "for_each", d.text.c_str());
  }
  // adaptor functions were applied
  if (completed && !cx.failed) {
    int main_next = d.src >= 0 && d.src < 3 ? e.src[d.src].next_started : -1;
    for (int k : d.stages) {
      if (k == K_AD2 && main_next > 0 && (g_probe_next != main_next || g_probe_cleanup != 1)) SR_FAIL(P, "adaptor_not_applied", "adapt_stream(next,cleanup): next adaptor applied %d time(s) for %d next() calls, cleanup adaptor %d time(s) [%s]", g_probe_next, main_next, g_probe_cleanup, d.text.c_str());
      if (k == K_CA && main_next > 0 && d.stages.size() == 1 && g_probe_cleanup != 1) SR_FAIL(P, "adaptor_not_applied", "cleanup_adapt_stream: cleanup adaptor applied %d time(s) [%s]", g_probe_cleanup, d.text.c_str());
      if (k == K_AD && main_next > 0 && d.stages.size() == 1 && g_probe_both != main_next + 1) SR_FAIL(P, "adaptor_not_applied", "adapt_stream: adaptor applied %d time(s) for %d next() calls and one cleanup [%s]", g_probe_both, main_next, d.text.c_str());
    }
  }
  bool fault = e.fault_fired || !injected.empty();
  {
    std::string dg = vk::sfmt("root=%d:%ld:%ld@%d seen=%s", e.root_chan, e.root_val, e.root_err, e.root_signals, seq_str(e.seen).c_str());
    std::vector<std::pair<long, std::string>> evs;
    for (int i = 0; i < 3; ++i) if (e.src[i].used) {
      dg += vk::sfmt(" src%d{next=%d cleanup=%d/%d delivered=%zu}", i, e.src[i].next_started, e.src[i].cleanup_started, e.src[i].cleanup_completed, e.src[i].delivered.size());
      for (size_t n = 0; n < e.src[i].nexts.size(); ++n) { auto& nr = e.src[i].nexts[n]; evs.push_back({nr.t_start, vk::sfmt("s%d.%zu%s", i, n, nr.stopped_at_start ? "!" : "")}); if (nr.t_complete >= 0) evs.push_back({nr.t_complete, vk::sfmt("c%d.%zu=%d", i, n, nr.chan)}); if (nr.t_stop_seen >= 0) evs.push_back({nr.t_stop_seen, vk::sfmt("x%d.%zu", i, n)}); }
      if (e.src[i].t_cleanup_start >= 0) evs.push_back({e.src[i].t_cleanup_start, vk::sfmt("cs%d", i)});
      if (e.src[i].t_cleanup_done >= 0) evs.push_back({e.src[i].t_cleanup_done, vk::sfmt("cd%d", i)});
    }
    for (size_t k = 0; k < e.t_seen.size(); ++k) evs.push_back({e.t_seen[k], vk::sfmt("e%zu", k)});
    if (e.t_root >= 0) evs.push_back({e.t_root, "ROOT"});
    if (e.t_stop_begin >= 0) evs.push_back({e.t_stop_begin, "STOP"});
    std::sort(evs.begin(), evs.end());
    dg += " | order"; for (auto& x : evs) { dg += ' '; dg += x.second; }
    cx.digest = dg;
  }
  delete runner;
  if (!e.live_ops.empty() && !cx.failed) SR_FAIL(P, "op_leaked", "%zu operation state(s) of the harness sources were never destroyed although the consumer and the stream have been destroyed [%s]", e.live_ops.size(), d.text.c_str());
  cx.nontrivial = driver_steps >= 2 && (stop_inflight || e.hook_fired || trigger_inflight || fault || (limit >= 0 && early) || deferred_cleanup_fired);
  if (e.hook_fired) cx.label("stop-from-inside-next()-call");
  if (stop_inflight) cx.label("stop-while-outstanding");
  if (trigger_inflight) cx.label("trigger-fires-while-next-outstanding");
  if (fault) cx.label("error-or-fault");
  if (early) cx.label("consumer-leaves-early");
  if (e.hc_done_in_stop) cx.label("stop_immediately-done-inside-request_stop");
  if (exact) cx.label("exact-sequence-checked");
  cx.label(vk::sfmt("consumer=%d", consumer));
  g_env = nullptr;
}
