// C08 / C09 — async scopes and futures under schedule control.
// Spawner threads admit work into a v1 or v2 async_scope (nest / spawn_detached /
// detached_spawn / attach / spawn_future), a completer thread finishes the
// harness leaves, joiner threads run join()/complete()/cleanup()/request_stop(),
// futures are awaited (possibly with a stop request), or dropped.
#include "kit/case.hpp"
#include "kit/dk.hpp"
#include "kit/sr.hpp"

#include <unifex/any_sender_of.hpp>
#include <unifex/async_scope.hpp>
#include <unifex/nest.hpp>
#include <unifex/spawn_detached.hpp>
#include <unifex/spawn_future.hpp>
#include <unifex/v1/async_scope.hpp>
#include <unifex/v2/async_scope.hpp>

#include <thread>

using namespace unifex;

namespace {
const char* P8 = "C08";
const char* P9 = "C09";

struct LeafRec {
  int chan_plan = dk::VALUE; int on_stop = 1;   // on_stop: 0 ignore, 1 complete with done inside the callback
  bool connected = false, started = false, completed = false, destroyed = false, stop_seen = false;
  long t_started = -1, t_completed = -1, t_completed_end = -1, t_stop_seen = -1; int chan = dk::NONE;   // t_completed: completion call begins; t_completed_end: it has returned
  void* op = nullptr; void (*complete)(void*, int) = nullptr;
  bool pay = false, pay_throw = false; int pay_at = 2;   // the leaf delivers a Pay object (v2 spawn_future only); its first move / copy (the store into the future's shared state) throws
};
struct ItemRec {
  int kind = 0;          // 0 nest+start (v2) / attach+start (v1), 1 spawn_detached / detached_spawn, 2 spawn_future / spawn
  int future_use = 0;    // 0 await, 1 await with pre-stopped token, 2 await then cancel, 3 drop at once, 4 drop after the leaf completed
  long t_call_begin = -1, t_call_end = -1, t_consumed = -1;   // consumed: future awaited-to-completion or dropped; nest op completed
  int signals = 0; int chan = dk::NONE; long payload = -1; long t_done = -1; long t_fut_start = -1; long t_fut_stop = -1; long t_drop_end = -1;
  std::unique_ptr<inplace_stop_source> src;
};
struct JoinRec { int kind = 0; int thread = 0; long t_begin = -1, t_start_end = -1, t_done = -1; int signals = 0; };   // kind 0 join/complete, 1 cleanup, 2 request_stop (no sender)
struct World {
  std::vector<LeafRec> leaves; std::vector<ItemRec> items; std::vector<JoinRec> joins;
  std::vector<int> pending;    // started, not yet completed leaves (ids)
  bool spawners_done = false;
  sr::AllocLedger ledger;
  long pay_live = 0, pay_made = 0;
};
World* g_w;

// a value type whose move / copy constructor can throw: generation 0 is the object the leaf creates, every move or copy adds one, and
// the constructor of generation throw_at throws (1 = the store into the future's shared state).  A magic word tells a constructed object
// from raw storage: destroying or reading something that was never constructed is reported.
struct Pay {
  long v; int gen; int throw_at; unsigned magic;
  Pay(long vv, int ta) noexcept : v(vv), gen(0), throw_at(ta), magic(0x50415921u) { g_w->pay_live++; g_w->pay_made++; }
  Pay(const Pay& o) : v(o.v), gen(o.gen + 1), throw_at(o.throw_at), magic(0x50415921u) {
    if (o.magic != 0x50415921u) vk::ctx().fail("C02", "payload_read_unconstructed", "a payload was copied / moved from storage that holds no constructed object");
    if (gen == throw_at) throw sr::LeafFailure{(int)(v - 1000), 9};
    g_w->pay_live++; g_w->pay_made++;
  }
  Pay& operator=(const Pay&) = delete;
  ~Pay() {
    if (magic != 0x50415921u) vk::ctx().fail("C02", "payload_destroyed_unconstructed", "a payload destructor ran on storage that holds no constructed object (magic %x)", magic);
    else { magic = 0xdeadu; g_w->pay_live--; }
  }
};

// ---- leaf sender completed by the completer thread
template <class V> struct LeafSender {
  int id;
  template <template <class...> class Var, template <class...> class Tup> using value_types = std::conditional_t<std::is_void_v<V>, Var<Tup<>>, Var<Tup<V>>>;
  template <template <class...> class Var> using error_types = Var<std::exception_ptr>;
  static constexpr bool sends_done = true;
  template <class R> struct Op {
    int id; R r;
    struct StopFn { Op* op; void operator()() noexcept { op->on_stop(); } };
    using cb_t = typename stop_token_type_t<R&>::template callback_type<StopFn>;
    manual_lifetime<cb_t> cb; bool cb_live = false;
    Op(int i, R&& rr) : id(i), r((R &&) rr) { g_w->leaves[(size_t)id].connected = true; }
    Op(Op&&) = delete;
    ~Op() {
      // a scheduling point inside the destructor, then a write to the operation state: whoever owns the enclosing storage (the scope's
      // spawn_future shared state) must keep it alive until the nested operation has been destroyed (ASan sees the write otherwise)
      detsched::step();
      { volatile int* p = &id; *p = *p; }
      auto& L = g_w->leaves[(size_t)id];
      if (L.started && !L.completed) vk::ctx().fail("C02", "child_op_destroyed_before_completion", "leaf %d's operation state was destroyed while running", id);
      L.destroyed = true;
    }
    void start() noexcept {
      auto& L = g_w->leaves[(size_t)id];
      L.started = true; L.t_started = dk::tick(); L.op = this;
      L.complete = [](void* p, int chan) { static_cast<Op*>(p)->finish(chan); };
      vk::ctx().tr("#%ld leaf %d started", L.t_started, id);
      cb.construct(get_stop_token(r), StopFn{this});
      cb_live = true;
      g_w->pending.push_back(id);   // only now may the completer thread finish this leaf
    }
    void on_stop() noexcept {
      auto& L = g_w->leaves[(size_t)id];
      if (L.stop_seen) return;
      L.stop_seen = true; L.t_stop_seen = dk::tick();
      vk::ctx().tr("#%ld leaf %d observes stop", L.t_stop_seen, id);
      // a stop callback that takes a while (0-2 scheduling points, by leaf id): whoever requested the stop stays inside request_stop()
      // that long, which widens the windows in which the operation completes while the requester is still in the middle of its protocol
      for (int k = 0; k < id % 3; ++k) detsched::yield_now();
      // completion is left to the completer thread (no synchronous completion inside the callback: see the known finding
      // stop_source_destroyed_in_callback); the completer turns it into done
      if (L.on_stop == 1) L.chan_plan = dk::DONE;
    }
    void finish(int chan) noexcept {
      auto& L = g_w->leaves[(size_t)id];
      if (L.completed) return;
      L.t_completed = dk::tick();   // the completion begins here: from now on the leaf no longer listens for stop requests
      if (cb_live) { cb_live = false; cb.destruct(); }
      L.completed = true; L.chan = chan;
      vk::ctx().tr("#%ld leaf %d completes with %s", L.t_completed, id, dk::chan_name(chan));
      int i = id;
      LeafRec* rec = &L;   // (*this may be destroyed by the completion)
      if (chan == dk::VALUE) { if constexpr (std::is_void_v<V>) unifex::set_value(std::move(r)); else if constexpr (std::is_same_v<V, Pay>) { int at = rec->pay_throw ? rec->pay_at : -1;
        // (a receiver may take the value by value - v2 nest does: the move into its parameter happens in this call and may throw; a sender
        // whose set_value call throws delivers the exception through set_error)
        try { unifex::set_value(std::move(r), Pay{1000 + i, at}); } catch (...) { unifex::set_error(std::move(r), std::current_exception()); } } else unifex::set_value(std::move(r), (long)(1000 + i)); }
      else if (chan == dk::ERROR) unifex::set_error(std::move(r), std::make_exception_ptr(sr::LeafFailure{i, 0}));
      else unifex::set_done(std::move(r));
      rec->t_completed_end = dk::tick();
    }
  };
  template <class R> friend Op<remove_cvref_t<R>> tag_invoke(tag_t<connect>, LeafSender s, R&& r) { return Op<remove_cvref_t<R>>{s.id, (R &&) r}; }
};

// receiver for nest / attach / future / join senders
struct Rcv {
  int* signals; int* chan; long* payload; long* t_done; inplace_stop_source* src;
  void fin(int c, long p) noexcept { (*signals)++; *chan = c; if (payload) *payload = p; *t_done = dk::tick(); detsched::step(); }
  void set_value() && noexcept { fin(dk::VALUE, -1); }
  void set_value(long v) && noexcept { fin(dk::VALUE, v); }
  void set_value(const Pay& p) && noexcept { if (p.magic != 0x50415921u) vk::ctx().fail("C09", "future_value_garbage", "the future delivered a payload that was never constructed"); fin(dk::VALUE, p.v); }
  template <class E> void set_error(E&& e) && noexcept { fin(dk::ERROR, sr::error_code(e)); }
  void set_done() && noexcept { fin(dk::DONE, -1); }
  friend inplace_stop_token tag_invoke(tag_t<get_stop_token>, const Rcv& r) noexcept { return r.src ? r.src->get_token() : inplace_stop_token{}; }
  friend inline_scheduler tag_invoke(tag_t<get_scheduler>, const Rcv&) noexcept { return {}; }
};

struct SOp { int kind; int arg; };   // spawner: item index
struct Script {
  int variant = 2; int S = 1; int J = 1;
  std::vector<std::vector<int>> spawn;      // item ids per spawner
  std::vector<ItemRec> items; std::vector<LeafRec> leaves;
  std::vector<JoinRec> joins; std::vector<int> join_yields;
  int completer_order = 0; int completer_yields = 1;
};

Script decode(vk::Choice& c) {
  Script s;
  // the C09 check concentrates on futures (most items are spawn_future, smaller scripts leave more of the schedule budget to the future's races)
  const bool c09 = vk::ctx().prop == "C09" && vk::ctx().arg("legacy-decode") != "1";   // (replays recorded before the bias existed carry legacy-decode=1)
  s.variant = c.flag() ? 2 : 1;
  s.S = 1 + (int)c.upto(2); s.J = 1 + (int)c.upto(2);
  if (c09 && c.chance(2, 3)) { s.S = 1; s.J = 1; }
  s.spawn.resize((size_t)s.S);
  for (int t = 0; t < s.S; ++t) {
    int n = 1 + (int)c.upto(3);
    for (int k = 0; k < n; ++k) {
      ItemRec it; unsigned w = c.upto(10); it.kind = c09 ? (w < 2 ? 0 : w < 3 ? 1 : 2) : (w < 4 ? 0 : w < 6 ? 1 : 2);
      if (it.kind == 2) { it.future_use = (int)c.upto(5); if (c09 && c.chance(1, 3)) it.future_use = 2; }
      LeafRec L; unsigned o = c.upto(10); L.chan_plan = it.kind == 1 ? (o < 8 ? dk::VALUE : dk::DONE) : (o < 6 ? dk::VALUE : o < 8 ? dk::ERROR : dk::DONE);
      L.on_stop = c.chance(3, 4) ? 1 : 0;
      s.spawn[(size_t)t].push_back((int)s.items.size());
      s.items.push_back(std::move(it)); s.leaves.push_back(L);
    }
  }
  for (int j = 0; j < s.J; ++j) {
    JoinRec jr; jr.thread = j; unsigned k = c.upto(10);
    jr.kind = s.variant == 2 ? 0 : (k < 5 ? 0 : k < 8 ? 1 : 2);
    s.joins.push_back(jr); s.join_yields.push_back((int)c.upto(16));
  }
  bool any_sender_join = false; for (auto& j : s.joins) if (j.kind != 2) any_sender_join = true;
  if (!any_sender_join) s.joins[0].kind = 0;   // the scope has to be joined before it is destroyed
  s.completer_order = (int)c.upto(2); s.completer_yields = (int)c.upto(4);
  // v2 futures of a Pay value (a type whose move can throw), derived from the hash of the choices made so far so that recorded cases keep
  // their meaning: in every second case each v2 spawn_future item delivers a Pay, and its store into the shared state throws for some
  if (s.variant == 2 && vk::ctx().argi("legacy", 0) == 0 && vk::ctx().arg("legacy-decode") != "1" && c.h % 2 == 0) {
    uint64_t h = c.h / 2;
    for (size_t i = 0; i < s.items.size(); ++i, h = h * 6364136223846793005ull + 1442695040888963407ull) if (s.items[i].kind == 2) { s.leaves[i].pay = true; s.leaves[i].pay_throw = ((h >> 33) % 2) == 0; s.leaves[i].pay_at = 1 + (int)((h >> 40) % 4 != 0); }
    c.mix(h | 1);
  }
  return s;
}

std::string describe(const Script& s) {
  static const char* kn2[] = {"nest+start", "spawn_detached", "spawn_future"}; static const char* kn1[] = {"attach+start", "detached_spawn", "spawn"};
  static const char* fu[] = {"await", "await(pre-stopped)", "await+cancel", "drop", "drop-late"};
  std::string d = vk::sfmt("async_scope v%d:", s.variant);
  for (int t = 0; t < s.S; ++t) { d += vk::sfmt(" S%d[", t); for (int i : s.spawn[(size_t)t]) { auto& it = s.items[(size_t)i]; d += vk::sfmt("#%d:%s%s(leaf:%s,%s) ", i, (s.variant == 2 ? kn2 : kn1)[it.kind], it.kind == 2 ? vk::sfmt("/%s", fu[it.future_use]).c_str() : "", dk::chan_name(s.leaves[(size_t)i].chan_plan), s.leaves[(size_t)i].on_stop ? "stoppable" : "ignores-stop"); } d += "]"; }
  for (size_t j = 0; j < s.joins.size(); ++j) d += vk::sfmt(" J%zu[%s after %d yields]", j, s.joins[j].kind == 0 ? (s.variant == 2 ? "join" : "complete") : s.joins[j].kind == 1 ? "cleanup" : "request_stop", s.join_yields[j]);
  return d;
}

template <class Scope>
void run_script(const Script& sc, bool check, bool& nt8, bool& nt9) {
  auto& cx = vk::ctx();
  constexpr bool V2 = std::is_same_v<Scope, unifex::v2::async_scope>;
  dk::clock_ref() = 0;
  World W; g_w = &W;
  W.leaves = sc.leaves; W.joins = sc.joins;
  for (auto& p : sc.items) { ItemRec it; it.kind = p.kind; it.future_use = p.future_use; it.src = std::make_unique<inplace_stop_source>(); W.items.push_back(std::move(it)); }
  W.ledger.id = 1;
  {
    Scope scope;
    std::vector<std::thread> th;
    int spawners_left = sc.S;
    for (int t = 0; t < sc.S; ++t) th.emplace_back([&, t] {
      for (int id : sc.spawn[(size_t)t]) {
        ItemRec& it = W.items[(size_t)id];
        detsched::step();
        it.t_call_begin = dk::tick();
        if (it.kind == 0) {
          auto mk = [&] { if constexpr (V2) return scope.nest(LeafSender<void>{id}); else return scope.attach(LeafSender<void>{id}); };
          using Op = connect_result_t<decltype(mk()), Rcv>;
          dk::OpBox<Op> box;
          box.emplace(mk(), Rcv{&it.signals, &it.chan, nullptr, &it.t_done, it.src.get()});
          it.t_call_end = dk::tick();
          cx.tr("#%ld S%d: item #%d nest/attach connected; start()", it.t_call_end, t, id);
          start(*box.op);
          dk::wait_for([&] { return it.signals > 0; });
          it.t_consumed = dk::tick();
          box.reset();
        } else if (it.kind == 1) {
          cx.tr("#%ld S%d: item #%d spawn_detached", it.t_call_begin, t, id);
          if constexpr (V2) spawn_detached(LeafSender<void>{id}, scope, sr::CountingAlloc<std::byte>(&W.ledger));
          else scope.detached_spawn(LeafSender<void>{id});
          it.t_call_end = dk::tick();
        } else {
          cx.tr("#%ld S%d: item #%d spawn_future (%d)", it.t_call_begin, t, id, it.future_use);
          auto use = [&](auto fut) {
          it.t_call_end = dk::tick();
          // (for a dropped future the moment the drop BEGINS is recorded: a sound lower bound for "consumed")
          if (it.future_use == 3) { it.t_consumed = dk::tick(); { auto dropped = std::move(fut); (void)dropped; } it.t_drop_end = dk::tick(); }
          else if (it.future_use == 4) { dk::wait_for([&] { auto& L = W.leaves[(size_t)id]; return L.completed || !L.started; }); it.t_consumed = dk::tick(); { auto dropped = std::move(fut); (void)dropped; } it.t_drop_end = dk::tick(); }
          else {
            if (it.future_use == 1) { it.t_fut_stop = dk::tick(); it.src->request_stop(); }
            using Op = connect_result_t<decltype(std::move(fut)), Rcv>;
            dk::OpBox<Op> box;
            it.t_fut_start = dk::tick();   // "awaited" = connect + start (the future registers its stop callback at connect time)
            box.emplace(std::move(fut), Rcv{&it.signals, &it.chan, &it.payload, &it.t_done, it.src.get()});
            start(*box.op);
            if (it.future_use == 2) { detsched::yield_now(); it.t_fut_stop = dk::tick(); cx.tr("#%ld S%d: cancel future #%d", it.t_fut_stop, t, id); it.src->request_stop(); }
            dk::wait_for([&] { return it.signals > 0; });
            it.t_consumed = it.t_done;   // the future is consumed when its receiver is completed
            box.reset();
          }
          };
          if constexpr (V2) {
            if (W.leaves[(size_t)id].pay) use(spawn_future(LeafSender<Pay>{id}, scope, sr::CountingAlloc<std::byte>(&W.ledger)));
            else use(spawn_future(LeafSender<long>{id}, scope, sr::CountingAlloc<std::byte>(&W.ledger)));
          } else use(scope.spawn(LeafSender<long>{id}));
          if (it.t_consumed < 0) it.t_consumed = dk::tick();
          cx.tr("#%ld S%d: future #%d consumed", it.t_consumed, t, id);
        }
      }
      if (--spawners_left == 0) W.spawners_done = true;
    });
    std::thread completer([&] {
      int idle = 0;
      cx.tr("completer: running");
      for (;;) {
        for (int k = 0; k < sc.completer_yields; ++k) detsched::yield_now();
        if (W.pending.empty()) {
          bool joins_done = true; for (auto& j : W.joins) if (j.kind != 2 && j.signals == 0) joins_done = false;
          if (W.spawners_done && joins_done) break;
          if (++idle > 4000) break;
          detsched::yield_now();
          continue;
        }
        idle = 0;
        int id;
        if (sc.completer_order == 0) { id = W.pending.front(); W.pending.erase(W.pending.begin()); }
        else { id = W.pending.back(); W.pending.pop_back(); }
        auto& L = W.leaves[(size_t)id];
        cx.tr("completer: completing leaf %d", id);
        L.complete(L.op, L.chan_plan);
      }
    });
    std::vector<std::thread> joiners;
    for (size_t j = 0; j < sc.joins.size(); ++j) joiners.emplace_back([&, j] {
      JoinRec& jr = W.joins[j];
      for (int k = 0; k < sc.join_yields[j]; ++k) detsched::yield_now();
      jr.t_begin = dk::tick();
      int chan = dk::NONE;
      if (jr.kind == 2) {
        cx.tr("#%ld J%zu: request_stop()", jr.t_begin, j);
        if constexpr (!V2) scope.request_stop();
        jr.t_start_end = dk::tick();
        return;
      }
      auto run_join = [&](auto snd) {
        using Op = connect_result_t<decltype(std::move(snd)), Rcv>;
        dk::OpBox<Op> box;
        box.emplace(std::move(snd), Rcv{&jr.signals, &chan, nullptr, &jr.t_done, nullptr});
        cx.tr("#%ld J%zu: %s start()", jr.t_begin, j, jr.kind == 1 ? "cleanup" : "join/complete");
        start(*box.op);
        jr.t_start_end = dk::tick();
        dk::wait_for([&] { return jr.signals > 0; });
        cx.tr("#%ld J%zu: join completed", jr.t_done, j);
        box.reset();
      };
      if constexpr (V2) run_join(scope.join());
      else { if (jr.kind == 1) run_join(scope.cleanup()); else run_join(scope.complete()); }
    });
    for (auto& t : th) t.join();
    for (auto& t : joiners) t.join();
    completer.join();
  }   // ~Scope: asserts join_started && use_count()==0
  dk::free_graveyard();
  if (!check) { g_w = nullptr; return; }

  long t_close = -1;    // earliest moment at which the scope is certainly closed
  for (auto& j : W.joins) if (j.t_start_end >= 0 && (t_close < 0 || j.t_start_end < t_close)) t_close = j.t_start_end;
  long t_close_begin = -1; for (auto& j : W.joins) if (j.t_begin >= 0 && (t_close_begin < 0 || j.t_begin < t_close_begin)) t_close_begin = j.t_begin;
  // a stop request has certainly been delivered once EVERY cleanup()/request_stop() call has returned (a call that finds
  // another one already delivering returns at once)
  long t_stop_req = -1, t_stop_begin = -1;
  for (auto& j : W.joins) if (j.kind >= 1 && j.t_start_end >= 0) { if (j.t_start_end > t_stop_req) t_stop_req = j.t_start_end; if (t_stop_begin < 0 || j.t_begin < t_stop_begin) t_stop_begin = j.t_begin; }
  bool close_races_admission = false, future_race = false;
  for (auto& j : W.joins) {
    if (j.kind == 2) continue;
    if (j.signals != 1) { cx.fail(P8, "join_count", "a started join()/complete()/cleanup() completed %d times", j.signals); continue; }
    for (size_t i = 0; i < W.leaves.size(); ++i) {
      auto& L = W.leaves[i];
      if (L.started && (!L.completed || L.t_completed > j.t_done)) cx.fail(P8, "join_before_work_finished", "join completed (at %ld) while leaf %zu, admitted into the scope and started (at %ld), had not completed yet", j.t_done, i, L.t_started);
    }
    for (size_t i = 0; i < W.items.size(); ++i) {
      auto& it = W.items[i];
      if (it.kind == 2 && it.t_call_end >= 0 && it.t_call_end < j.t_done && W.leaves[i].started && (it.t_consumed < 0 || it.t_consumed > j.t_done))
        cx.fail(P8, "join_before_future_consumed", "join completed (at %ld) while future #%zu (created at %ld, operation admitted) was neither awaited to completion nor dropped (consumed at %ld)", j.t_done, i, it.t_call_end, it.t_consumed);
    }
  }
  for (size_t i = 0; i < W.items.size(); ++i) {
    auto& it = W.items[i]; auto& L = W.leaves[i];
    if (it.t_call_begin < 0) continue;
    if (t_close >= 0 && it.t_call_begin > t_close && L.started) cx.fail(P8, "started_after_close", "item #%zu was nested/spawned (call began at %ld) after the scope had been closed (at %ld) but its operation was started", i, it.t_call_begin, t_close);
    if (t_close_begin >= 0 && it.t_call_end > t_close_begin && it.t_call_begin < t_close) close_races_admission = true;
    if (L.started && !L.completed) cx.fail(P8, "work_never_completed", "leaf %zu was started but never completed", i);
    if (L.connected && !L.destroyed) cx.fail("C02", "child_op_leak", "the operation state of leaf %zu was never destroyed", i);
    // (an operation that is also being stopped through its future -- cancel or drop -- may have that other request "in delivery"
    // on another thread, in which case the scope's request legitimately returns at once; the rule is asserted for the others)
    bool other_stop_path = it.kind == 2 && it.future_use != 0;
    if (!other_stop_path && t_stop_req >= 0 && L.started && (!L.completed || L.t_completed > t_stop_req) && L.t_started < t_stop_req && !L.stop_seen)
      cx.fail(P8, "stop_not_delivered", "cleanup()/request_stop() had taken effect (at %ld) but running leaf %zu never observed a stop request", t_stop_req, i);
    if (it.kind == 0) {
      if (it.signals != 1) cx.fail("C01", "completion_count", "nest/attach item #%zu completed %d times", i, it.signals);
      if (!L.started && it.chan != dk::DONE) cx.fail(P8, "not_started_not_done", "item #%zu was refused by the closed scope but completed with %s instead of done", i, dk::chan_name(it.chan));
      bool stop_raced = t_stop_begin >= 0 && t_stop_begin < it.t_done;   // attach completes with done once the scope's stop request reached it
      if (L.started && it.chan != L.chan && !(stop_raced && it.chan == dk::DONE)) cx.fail("C05", "nest_result", "nest/attach item #%zu: wrapped operation completed with %s, the item with %s", i, dk::chan_name(L.chan), dk::chan_name(it.chan));
    }
    if (it.kind == 2) {
      bool awaited = it.future_use <= 2;
      if (awaited) {
        if (it.signals != 1) { cx.fail("C01", "completion_count", "future #%zu completed %d times", i, it.signals); continue; }
        if (!L.started) { if (it.chan != dk::DONE) cx.fail(P9, "future_of_refused_op", "future #%zu: the scope was closed, its operation never ran, but the future completed with %s", i, dk::chan_name(it.chan)); }
        else {
          bool cancelled = it.t_fut_stop >= 0 || (t_stop_begin >= 0 && t_stop_begin < it.t_done);   // own stop request, or the scope's (the future is nested in the scope)
          bool result_ready_at_await = L.completed && L.t_completed_end >= 0 && L.t_completed_end < it.t_fut_start;   // the operation's completion call had returned
          const int lchan = (L.chan == dk::VALUE && L.pay_throw) ? dk::ERROR : L.chan;   // a result whose storing throws is an error (spawn_future catches and stores the exception)
          if (L.pay_throw && L.chan == dk::VALUE && it.chan == dk::VALUE) cx.fail(P9, "future_value_after_throwing_store", "future #%zu: storing the operation's value threw, yet the future completed with a value (%ld)", i, it.payload);
          if (it.chan == dk::VALUE && (L.chan != dk::VALUE || it.payload != 1000 + (long)i)) cx.fail(P9, "future_value", "future #%zu completed with value %ld, its operation with %s (payload %ld)", i, it.payload, dk::chan_name(L.chan), 1000 + (long)i);
          if (it.chan == dk::ERROR && lchan != dk::ERROR) cx.fail(P9, "future_error", "future #%zu completed with an error, its operation with %s", i, dk::chan_name(L.chan));
          if (it.chan == dk::DONE && lchan != dk::DONE && !cancelled) cx.fail(P9, "future_done_without_cause", "future #%zu completed with done although its operation completed with %s and the future was not cancelled", i, dk::chan_name(L.chan));
          // (v1 futures are nested with attach(), whose stop callback may win against a completion that happens at the same
          // time; the rule is asserted only when no scope-level stop request overlaps the await)
          bool scope_stop_overlaps = false;
          for (auto& j : W.joins) if (j.kind >= 1 && j.t_begin >= 0 && j.t_begin < it.t_done && (j.t_start_end < 0 || j.t_start_end > it.t_fut_start)) scope_stop_overlaps = true;
          // ... and the spawned operation of a v1 scope is attach(leaf): a scope-level stop request whose call overlaps the leaf's completion may win
          // inside attach and turn the operation's result into done, whatever the leaf delivered
          for (auto& j : W.joins) if (j.kind >= 1 && j.t_begin >= 0 && L.t_completed >= 0 && j.t_begin < L.t_completed_end && (j.t_start_end < 0 || j.t_start_end > L.t_completed)) scope_stop_overlaps = true;
          if (result_ready_at_await && !scope_stop_overlaps && it.chan != lchan) cx.fail(P9, "ready_result_not_delivered", "future #%zu: the result (%s) was already available when the future was awaited, but it completed with %s", i, dk::chan_name(L.chan), dk::chan_name(it.chan));
          bool scope_stop_races = t_stop_begin >= 0 && t_stop_begin < L.t_completed;
          if (!scope_stop_races && it.t_fut_stop >= 0 && L.completed && L.t_completed > it.t_done && L.t_started < it.t_fut_stop && !L.stop_seen && it.chan == dk::DONE) cx.fail(P9, "cancel_not_forwarded", "future #%zu was cancelled and completed with done but never requested stop on its operation", i);
          if (cancelled && it.t_fut_start >= 0 && !result_ready_at_await) future_race = true;
        }
      } else {
        bool scope_stop_races = t_stop_begin >= 0 && (!L.completed || t_stop_begin < L.t_completed);   // the scope's own stop request may be the one "in delivery"
        if (!scope_stop_races && L.started && !L.stop_seen && it.t_drop_end >= 0 && L.t_started < it.t_consumed && (!L.completed || L.t_completed > it.t_drop_end)) cx.fail(P9, "drop_does_not_cancel", "future #%zu was dropped (at %ld) while its operation was running but the operation never observed a stop request", i, it.t_consumed);
        if (L.started && it.future_use == 3) future_race = true;
      }
    }
  }
  if (W.pay_live != 0) cx.fail(P9, "future_value_leak", "%ld of the %ld value objects created for futures were never destroyed (or destroyed twice)", W.pay_live, W.pay_made);
  { bool thr = false; for (size_t i = 0; i < W.leaves.size(); ++i) if (W.leaves[i].pay_throw && W.leaves[i].chan == dk::VALUE) thr = true; if (thr) cx.label("future-store-throws"); }
  if (W.ledger.allocs != W.ledger.deallocs) cx.fail(P9, "shared_state_leak", "spawn allocator: %ld allocations, %ld deallocations", W.ledger.allocs, W.ledger.deallocs);
  nt8 = close_races_admission; nt9 = future_race;
  if (close_races_admission) cx.label("close-races-admission");
  if (future_race) cx.label("future-race");
  g_w = nullptr;
}

}  // namespace

extern "C" const char* vk_harness_name() { return "c08_scope"; }
const char* vk_nontrivial_rule() {
  return "scripts: async_scope v1|v2, 1-2 spawner threads x 1-3 items {nest/attach + start, spawn_detached/detached_spawn, spawn_future/spawn with the future awaited / awaited with a stopped token / awaited then cancelled / dropped at once / dropped after completion}, "
         "leaf outcomes value/error/done, leaves react to stop or ignore it, one completer thread (FIFO or LIFO), 1-2 joiner threads (join|complete|cleanup|request_stop after k yields); schedule from the same bytes (detsched). "
         "non-trivial: C08 = a close overlapping an admission call; C09 = a future cancelled while its result was not yet available, or dropped while its operation ran. distinct = hash of script + schedule";
}

void vk_run_case(vk::Choice& c) {
  auto& cx = vk::ctx();
  Script sc = decode(c);
  cx.desc = describe(sc);
  bool nt8 = false, nt9 = false;
  detsched::Options o; o.max_steps = 60000;
  auto res = detsched::run(c, o, [&] {
    bool dry = detsched::in_dry_run(); bool a = false, b = false;
    if (sc.variant == 2) run_script<unifex::v2::async_scope>(sc, !dry, dry ? a : nt8, dry ? b : nt9);
    else run_script<unifex::v1::async_scope>(sc, !dry, dry ? a : nt8, dry ? b : nt9);
  });
  cx.desc += " | " + res.schedule;
  cx.nontrivial = !res.inconclusive && (cx.prop == "C09" ? nt9 : nt8);
  cx.label(vk::sfmt("v%d", sc.variant));
  if (res.inconclusive) cx.label("inconclusive(step budget)");
}
