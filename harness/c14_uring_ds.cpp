// C14 / C07 (io_uring_context) — remote scheduling, run(stop_token) and timers under schedule control.
// io_uring_enter is intercepted (detsched/shim.hpp: syscall -> detsched::uring_enter_hook): submissions go straight to the kernel,
// waiting for completions never sleeps in the kernel while the loop thread holds the run token, so the loop's
// "deciding to block" window (acquire_remote_queued_items .. try_register_remote_queue_notification .. io_uring_enter)
// interleaves with remote producers at atomic-operation granularity.
// Scenario: a loop thread inside run(stop_token); 1-3 producer threads each schedule() 1-4 items remotely, with generated
// pauses, optionally in waves (a later wave is issued once the loop has certainly gone idle); 0-3 timers with close due
// times, some stopped remotely around their expiry; finally the main thread requests stop on run().
// Oracles: every started operation completes exactly once, on the thread inside run(); value unless its own stop source
// fired (then value or done); a timer never completes with value before its due time; run() returns after the stop
// request; no deadlock / livelock verdict (= an accepted item was lost, or run(stop_token) never returned).
#include "kit/case.hpp"
#include "kit/dk.hpp"

#include <unifex/config.hpp>
#include <unifex/linux/io_uring_context.hpp>
#include <unifex/scheduler_concepts.hpp>

#include <memory>
#include <thread>

using namespace unifex;
using namespace unifex::linuxos;

namespace {
const char* P = "C14";

struct OpRec {
  int kind = 0;   // 0 schedule, 3 timer
  int signals = 0; int chan = dk::NONE; int thread = -1; long t_done = -1, t_stop = -1;
  std::unique_ptr<inplace_stop_source> src;
};
struct World {
  std::vector<std::unique_ptr<OpRec>> ops; int loop_thread = -1;
  OpRec& add(int kind) { ops.emplace_back(new OpRec()); ops.back()->kind = kind; ops.back()->src.reset(new inplace_stop_source()); return *ops.back(); }
};

struct Recv {
  OpRec* o;
  void fin(int chan) noexcept {
    o->signals++;
    if (o->signals > 1) { vk::ctx().fail(P, "double_completion", "an io_uring_context operation (kind %d) completed %d times", o->kind, o->signals); return; }
    o->chan = chan; o->thread = detsched::current_thread(); o->t_done = dk::tick();
    vk::ctx().tr("#%ld op(kind %d) completes with %s", o->t_done, o->kind, dk::chan_name(chan));
    detsched::step();
  }
  void set_value() && noexcept { fin(dk::VALUE); }
  template <class E> void set_error(E&&) && noexcept { fin(dk::ERROR); }
  void set_done() && noexcept { fin(dk::DONE); }
  friend inplace_stop_token tag_invoke(tag_t<get_stop_token>, const Recv& r) noexcept { return r.o->src->get_token(); }
};

template <class S> struct Box {
  using Op = connect_result_t<S, Recv>;
  dk::OpBox<Op> b;
  void go(S&& s, OpRec* o) { b.emplace(std::move(s), Recv{o}); unifex::start(*b.op); }
};

struct Script {
  int producers = 1, per_wave = 1, waves = 1; int pause[3] = {0, 0, 0};
  int timers = 0; int timer_us[3] = {0, 0, 0}; std::vector<std::pair<int, int>> timer_stops;
  int stop_delay = 0;
  bool far = false;        // timers due in the far future (+10 s): they can only end through their stop requests, which arrive in a generated order with no expiry in between (timer-heap removal of the head, the new head, middle entries)
  bool marathon = false;   // one producer, several hundred waves of one item each: the loop goes idle and is woken again hundreds of times (internal completion-queue accounting over a long life)
};

Script decode(vk::Choice& c) {
  Script s;
  s.producers = 1 + (int)c.upto(3); s.per_wave = 1 + (int)c.upto(3); s.waves = 1 + (int)c.upto(3);
  for (int i = 0; i < 3; ++i) s.pause[i] = (int)c.upto(12);
  s.timers = c.chance(1, 3) ? 1 + (int)c.upto(3) : 0;
  for (int i = 0; i < s.timers; ++i) s.timer_us[i] = 100 + (int)c.upto(8) * 150;
  int nst = s.timers ? (int)c.upto(3) : 0;
  for (int i = 0; i < nst; ++i) s.timer_stops.emplace_back((int)c.upto(3), (int)c.upto(30));
  s.stop_delay = (int)c.upto(6);
  unsigned m = c.upto(40);
  if (m == 0) { s.marathon = true; s.producers = 1; s.per_wave = 1; s.waves = 540 + (int)c.upto(60); s.timers = 0; s.timer_stops.clear(); for (int i = 0; i < 3; ++i) s.pause[i] = 0; }
  else if (m < 12) {
    s.far = true; s.timers = 2 + (int)c.upto(3); if (s.timers > 3) s.timers = 3;
    s.timer_stops.clear();
    // every timer is stopped exactly once, in a generated order
    int order[3] = {0, 1, 2}; int perm = (int)c.upto(6); static const int PERM[6][3] = {{0,1,2},{0,2,1},{1,0,2},{1,2,0},{2,0,1},{2,1,0}};
    for (int i = 0; i < 3; ++i) order[i] = PERM[perm][i];
    for (int i = 0; i < 3; ++i) if (order[i] < s.timers) s.timer_stops.emplace_back(order[i], (int)c.upto(4));
  }
  return s;
}

void run_script(const Script& sc, bool check, bool& nontrivial) {
  auto& cx = vk::ctx();
  World W;
  int waves_while_idle = 0;
  {
    io_uring_context ctx;
    inplace_stop_source loop_stop;
    std::thread loop([&] { W.loop_thread = detsched::current_thread(); ctx.run(loop_stop.get_token()); cx.tr("#%ld run() returned", dk::tick()); });
    auto sched = ctx.get_scheduler();
    std::vector<std::thread> producers;
    for (int p = 0; p < sc.producers; ++p) producers.emplace_back([&, p] {
      using S = decltype(schedule(sched));
      for (int wv = 0; wv < sc.waves; ++wv) {
        for (int k = 0; k < sc.pause[(p + wv) % 3]; ++k) detsched::yield_now();
        std::vector<std::unique_ptr<Box<S>>> boxes; std::vector<OpRec*> mine;
        for (int k = 0; k < sc.per_wave; ++k) {
          OpRec& o = W.add(0); mine.push_back(&o);
          cx.tr("#%ld producer %d: schedule() start", dk::tick(), p);
          boxes.emplace_back(new Box<S>()); boxes.back()->go(schedule(sched), &o);
        }
        for (auto* o : mine) dk::wait_for([&] { return o->signals > 0; });
        boxes.clear();
        if (wv + 1 < sc.waves) waves_while_idle++;
      }
    });
    std::thread timers;
    if (sc.timers > 0) timers = std::thread([&] {
      auto t0 = now(sched);
      using S = decltype(schedule_at(sched, t0));
      std::vector<std::unique_ptr<Box<S>>> boxes; std::vector<OpRec*> mine; std::vector<decltype(t0)> due;
      for (int k = 0; k < sc.timers; ++k) {
        OpRec& o = W.add(3); mine.push_back(&o);
        due.push_back(sc.far ? t0 + std::chrono::seconds(10) + std::chrono::milliseconds(k) : t0 + std::chrono::microseconds(sc.timer_us[k]));
        boxes.emplace_back(new Box<S>()); boxes.back()->go(schedule_at(sched, due.back()), &o);
      }
      for (auto& st : sc.timer_stops) {
        for (int y = 0; y < st.second; ++y) detsched::yield_now();
        OpRec* o = mine[(size_t)st.first % mine.size()];
        if (o->t_stop < 0) { o->t_stop = dk::tick(); cx.tr("#%ld timers: request_stop on timer %d", o->t_stop, st.first % (int)mine.size()); o->src->request_stop(); }
        if (sc.far) {   // the cancelled timer completes with done at once; its operation state is freed right away (a later touch by the context is a use-after-free)
          size_t idx = (size_t)st.first % mine.size();
          dk::wait_for([&] { return mine[idx]->signals > 0; });
          if (check && mine[idx]->chan != dk::DONE) cx.fail("C07", "far_timer_not_done", "a timer due in 10 s whose stop token fired completed with %s", dk::chan_name(mine[idx]->chan));
          boxes[idx].reset();
        }
      }
      for (size_t k = 0; k < mine.size(); ++k) {
        dk::wait_for([&] { return mine[k]->signals > 0; });
        if (check && mine[k]->chan == dk::VALUE && now(sched) < due[k]) cx.fail("C07", "timer_early", "io_uring_context schedule_at completed with value before its due time");
      }
      boxes.clear();
    });
    for (auto& t : producers) t.join();
    if (timers.joinable()) timers.join();
    for (int k = 0; k < sc.stop_delay; ++k) detsched::yield_now();
    cx.tr("#%ld main: request_stop on run()", dk::tick());
    loop_stop.request_stop();
    loop.join();
  }
  dk::free_graveyard();
  if (!check) return;
  for (auto& up : W.ops) {
    OpRec& o = *up;
    if (o.signals != 1) { cx.fail(P, "op_stranded", "an io_uring_context operation of kind %d completed %d times", o.kind, o.signals); continue; }
    if (o.thread != W.loop_thread) cx.fail(P, "completion_thread", "an operation of kind %d completed on thread %d, not on the thread inside run() (%d)", o.kind, o.thread, W.loop_thread);
    if (o.chan == dk::DONE && o.t_stop < 0) cx.fail(P, "done_without_stop", "an operation of kind %d completed with done although its stop source never fired", o.kind);
    if (o.chan == dk::ERROR) cx.fail(P, "unexpected_error", "an operation of kind %d completed with an error", o.kind);
  }
  nontrivial = W.ops.size() >= 2 && (sc.producers >= 2 || sc.waves >= 2 || !sc.timer_stops.empty());
  if (waves_while_idle) cx.label("later-wave-after-loop-went-idle");
  if (sc.timers >= 2 && !sc.timer_stops.empty()) cx.label("concurrent-timers-with-remote-stop");
}

}  // namespace

extern "C" const char* vk_harness_name() { return "c14_uring_ds"; }
const char* vk_nontrivial_rule() {
  return "scripts: 1-3 remote producer threads x 1-3 waves x 1-3 schedule() items with generated pauses (a later wave starts when the loop has gone idle), 0-3 concurrent timers (100 us .. 1.2 ms) with remote stops, "
         "stop of run(stop_token) after a generated delay; schedule from the same bytes (detsched; io_uring_enter intercepted so that the loop never sleeps in the kernel while another thread can run). "
         "non-trivial = at least 2 operations and (2+ producers, or 2+ waves, or a timer stopped remotely); distinct = hash of script + schedule";
}

void vk_run_case(vk::Choice& c) {
  auto& cx = vk::ctx();
  Script sc = decode(c);
  cx.desc = vk::sfmt("%sio_uring_context: %d producer(s) x %d wave(s) x %d item(s), pauses %d/%d/%d, %d timer(s), %zu timer stop(s), stop after %d yields", sc.marathon ? "[marathon] " : sc.far ? "[timers due in 10 s, all cancelled] " : "", sc.producers, sc.waves, sc.per_wave, sc.pause[0], sc.pause[1], sc.pause[2], sc.timers, sc.timer_stops.size(), sc.stop_delay);
  bool nt = false;
  detsched::Options o; o.max_steps = sc.marathon ? 1500000 : 60000;
  if (sc.marathon) { o.dry_run = false; cx.label("marathon(hundreds of idle/wake-up rounds)"); }
  if (sc.far) cx.label("far-future-timers-all-cancelled");
  auto res = detsched::run(c, o, [&] {
    bool dry = detsched::in_dry_run(); bool ig = false;
    run_script(sc, !dry, dry ? ig : nt);
  });
  cx.desc += " | " + res.schedule;
  cx.nontrivial = nt && !res.inconclusive;
  if (res.inconclusive) cx.label("inconclusive(step budget)");
}
