// C08 (v0::async_scope) — spawn / complete / cleanup / request_stop under schedule control.
// 1-2 spawner threads call spawn(leaf) for 1-3 leaves each, a completer thread finishes started leaves, a closer thread
// runs complete() or cleanup() (or request_stop() followed by complete()) after a generated delay.
// Oracles: the closing sender completes exactly once, only after every leaf that was started has completed, and it does
// complete; a leaf spawned after the scope was closed is never started (its operation is destroyed unstarted); a leaf
// admitted before the close is started and counted; cleanup()/request_stop() deliver a stop request to every outstanding
// leaf; every leaf operation is destroyed exactly once (allocation ledger via ASan/LSan).
#include "kit/case.hpp"
#include "kit/dk.hpp"

#include <unifex/inline_scheduler.hpp>
#include <unifex/v0/async_scope.hpp>

#include <thread>

using namespace unifex;

namespace {
const char* P = "C08";

struct LeafRec {
  int chan_plan = dk::VALUE; int on_stop = 1;
  bool connected = false, started = false, completed = false, destroyed = false, stop_seen = false;
  bool connect_throws = false, spawn_threw = false;   // spawn() of this leaf fails in connect(): the exception leaves spawn(), nothing was admitted, the scope's count is unchanged
  long t_spawn_begin = -1, t_spawn_end = -1, t_started = -1, t_completed = -1, t_stop_seen = -1;
  void* op = nullptr; void (*complete)(void*, int) = nullptr;
};
struct World { std::vector<LeafRec> leaves; std::vector<int> pending; bool spawners_done = false; long t_close_begin = -1, t_close_sender_done = -1; int close_signals = 0; long t_stop_req_end = -1; };
World* g_w;

struct ConnectFailure { int id; };
struct LeafSender {
  int id;
  template <template <class...> class Var, template <class...> class Tup> using value_types = Var<Tup<>>;
  template <template <class...> class Var> using error_types = Var<std::exception_ptr>;
  static constexpr bool sends_done = true;
  template <class R> struct Op {
    int id; R r;
    struct StopFn { Op* op; void operator()() noexcept { op->on_stop(); } };
    using cb_t = typename stop_token_type_t<R&>::template callback_type<StopFn>;
    manual_lifetime<cb_t> cb; bool cb_live = false;
    Op(int i, R&& rr) : id(i), r((R &&) rr) { g_w->leaves[(size_t)id].connected = true; }
    Op(Op&&) = delete;
    ~Op() {
      detsched::step();
      { volatile int* p = &id; *p = *p; }
      auto& L = g_w->leaves[(size_t)id];
      if (L.started && !L.completed) vk::ctx().fail("C02", "child_op_destroyed_before_completion", "leaf %d's operation state was destroyed while running", id);
      if (L.destroyed) vk::ctx().fail("C02", "child_op_destroyed_twice", "leaf %d's operation state was destroyed twice", id);
      L.destroyed = true;
    }
    void start() noexcept {
      auto& L = g_w->leaves[(size_t)id];
      L.started = true; L.t_started = dk::tick(); L.op = this;
      L.complete = [](void* p, int chan) { static_cast<Op*>(p)->finish(chan); };
      vk::ctx().tr("#%ld leaf %d started", L.t_started, id);
      cb.construct(get_stop_token(r), StopFn{this}); cb_live = true;
      g_w->pending.push_back(id);
    }
    void on_stop() noexcept {
      auto& L = g_w->leaves[(size_t)id];
      if (L.stop_seen) return;
      L.stop_seen = true; L.t_stop_seen = dk::tick();
      vk::ctx().tr("#%ld leaf %d observes stop", L.t_stop_seen, id);
      if (L.on_stop == 1) L.chan_plan = dk::DONE;    // the completer turns it into done
    }
    void finish(int chan) noexcept {
      auto& L = g_w->leaves[(size_t)id];
      if (L.completed) return;
      L.t_completed = dk::tick();
      if (cb_live) { cb_live = false; cb.destruct(); }
      L.completed = true;
      vk::ctx().tr("#%ld leaf %d completes with %s", L.t_completed, id, dk::chan_name(chan));
      if (chan == dk::VALUE) unifex::set_value(std::move(r));
      else if (chan == dk::ERROR) unifex::set_done(std::move(r));   // v0 spawn() requires senders that cannot fail: errors are not offered
      else unifex::set_done(std::move(r));
    }
  };
  template <class R> friend Op<remove_cvref_t<R>> tag_invoke(tag_t<connect>, LeafSender s, R&& r) {
    if (g_w->leaves[(size_t)s.id].connect_throws) { vk::ctx().tr("leaf %d: connect() throws", s.id); throw ConnectFailure{s.id}; }
    return Op<remove_cvref_t<R>>{s.id, (R &&) r};
  }
};

struct CloseRecv {
  void fin() noexcept { g_w->close_signals++; g_w->t_close_sender_done = dk::tick(); vk::ctx().tr("#%ld closing sender completed", g_w->t_close_sender_done); detsched::step(); }
  void set_value() && noexcept { fin(); }
  template <class... A> void set_value(A&&...) && noexcept { fin(); }
  template <class E> void set_error(E&&) && noexcept { fin(); }
  void set_done() && noexcept { fin(); }
  friend inline_scheduler tag_invoke(tag_t<get_scheduler>, const CloseRecv&) noexcept { return {}; }
};

struct Script { int S = 1; std::vector<std::vector<int>> spawn; std::vector<LeafRec> leaves; int close_kind = 0; int close_yields = 0; int completer_yields = 1; int completer_order = 0; };

void run_script(const Script& sc, bool check, bool& nt) {
  auto& cx = vk::ctx();
  World W; g_w = &W; W.leaves = sc.leaves;
  {
    unifex::v0::async_scope scope;
    std::vector<std::thread> spawners; int spawners_left = sc.S;
    for (int t = 0; t < sc.S; ++t) spawners.emplace_back([&, t] {
      for (int i : sc.spawn[(size_t)t]) {
        auto& L = W.leaves[(size_t)i];
        L.t_spawn_begin = dk::tick(); cx.tr("#%ld S%d: spawn(leaf %d)", L.t_spawn_begin, t, i);
        try { scope.spawn(LeafSender{i}); } catch (const ConnectFailure&) { L.spawn_threw = true; cx.tr("#%ld S%d: spawn(leaf %d) threw", dk::tick(), t, i); }
        L.t_spawn_end = dk::tick();
        detsched::yield_now();
      }
      if (--spawners_left == 0) W.spawners_done = true;
    });
    bool closer_done = false;
    std::thread completer([&] {
      for (;;) {
        if (W.pending.empty()) { if (W.spawners_done && closer_done) break; detsched::yield_now(); continue; }
        for (int k = 0; k < sc.completer_yields; ++k) detsched::yield_now();
        if (W.pending.empty()) continue;
        size_t idx = sc.completer_order ? W.pending.size() - 1 : 0;
        int id = W.pending[idx]; W.pending.erase(W.pending.begin() + (long)idx);
        auto& L = W.leaves[(size_t)id];
        L.complete(L.op, L.chan_plan);
      }
    });
    std::thread closer([&] {
      for (int k = 0; k < sc.close_yields; ++k) detsched::yield_now();
      W.t_close_begin = dk::tick();
      cx.tr("#%ld closer: %s", W.t_close_begin, sc.close_kind == 0 ? "complete()" : sc.close_kind == 1 ? "cleanup()" : "request_stop() then complete()");
      if (sc.close_kind == 2) { scope.request_stop(); W.t_stop_req_end = dk::tick(); }
      if (sc.close_kind == 1) {
        auto snd = scope.cleanup(); using Op = connect_result_t<decltype(snd), CloseRecv>;
        dk::OpBox<Op> box; box.emplace(std::move(snd), CloseRecv{}); unifex::start(*box.op);
        W.t_stop_req_end = dk::tick();
        dk::wait_for([&] { return W.close_signals > 0; });
      } else {
        auto snd = scope.complete(); using Op = connect_result_t<decltype(snd), CloseRecv>;
        dk::OpBox<Op> box; box.emplace(std::move(snd), CloseRecv{}); unifex::start(*box.op);
        dk::wait_for([&] { return W.close_signals > 0; });
      }
      closer_done = true;
    });
    for (auto& t : spawners) t.join();
    closer.join(); completer.join();
  }
  dk::free_graveyard();
  g_w = nullptr;
  if (!check) return;
  if (W.close_signals != 1) cx.fail(P, "join_signals", "the closing sender of the v0 scope completed %d times", W.close_signals);
  int admitted = 0, refused = 0; bool stop_outstanding = false;
  for (size_t i = 0; i < W.leaves.size(); ++i) {
    auto& L = W.leaves[i];
    if (L.t_spawn_begin < 0) continue;
    if (L.spawn_threw) { if (L.started || L.connected) cx.fail(P, "failed_spawn_ran", "spawn() of leaf %zu threw from connect() but the leaf was connected / started", i); continue; }
    if (L.connect_throws && !L.spawn_threw) continue;   // (the spawn was refused before connect() was reached: scope already closed)
    if (L.started) {
      admitted++;
      if (!L.completed) cx.fail(P, "leaf_never_completed", "leaf %zu was started but never completed", i);
      else if (L.t_completed > W.t_close_sender_done) cx.fail(P, "join_before_work_done", "the closing sender completed (t=%ld) before leaf %zu, spawned into the scope, had completed (t=%ld)", W.t_close_sender_done, i, L.t_completed);
      if (sc.close_kind != 0 && W.t_stop_req_end >= 0 && L.t_started < W.t_close_begin && (L.t_completed > W.t_stop_req_end) && !(L.t_stop_seen >= 0 && L.t_stop_seen <= W.t_stop_req_end)) cx.fail("C04", "stop_not_delivered", "leaf %zu was running when cleanup()/request_stop() was called and had not observed a stop request when that call returned", i);
      if (L.t_stop_seen >= 0) stop_outstanding = true;
    } else {
      refused++;
      if (L.t_spawn_end < W.t_close_begin) cx.fail(P, "admitted_work_not_started", "leaf %zu was spawned (call returned at t=%ld) before the scope was closed (t=%ld) but was never started", i, L.t_spawn_end, W.t_close_begin);
    }
    if (L.connected && !L.destroyed) cx.fail("C02", "child_op_leaked", "the operation state of leaf %zu was never destroyed", i);
  }
  nt = admitted >= 1 && (refused >= 1 || stop_outstanding || admitted >= 2);
  if (refused) cx.label("spawn-after-close-refused");
  if (stop_outstanding) cx.label("stop-delivered-to-outstanding-work");
}

}  // namespace

extern "C" const char* vk_harness_name() { return "c08_scope_v0"; }
const char* vk_nontrivial_rule() {
  return "scripts: 1-2 spawner threads x 1-3 spawn(leaf) on a v0::async_scope, a completer thread, a closer thread running complete() / cleanup() / request_stop()+complete() after a generated delay; schedule from the same bytes (detsched). "
         "non-trivial = at least one leaf admitted and (a spawn refused after the close, or a stop delivered to outstanding work, or two admitted leaves)";
}

void vk_run_case(vk::Choice& c) {
  auto& cx = vk::ctx();
  Script sc; sc.S = 1 + (int)c.upto(2); sc.spawn.resize((size_t)sc.S);
  for (int t = 0; t < sc.S; ++t) { int n = 1 + (int)c.upto(3); for (int k = 0; k < n; ++k) { LeafRec L; L.chan_plan = c.chance(1, 4) ? dk::DONE : dk::VALUE; L.on_stop = c.chance(3, 4) ? 1 : 0; sc.spawn[(size_t)t].push_back((int)sc.leaves.size()); sc.leaves.push_back(L); } }
  if (cx.argi("legacy", 0) == 0 && c.h % 4 == 0 && !sc.leaves.empty()) { size_t k = (size_t)((c.h / 4) % sc.leaves.size()); sc.leaves[k].connect_throws = true; c.mix(k + 17); cx.label("spawn-with-throwing-connect"); }
  sc.close_kind = (int)c.upto(3); sc.close_yields = (int)c.upto(16); sc.completer_yields = (int)c.upto(4); sc.completer_order = (int)c.upto(2);
  cx.desc = vk::sfmt("v0 scope: spawners=%d leaves=%zu close=%s after %d yields", sc.S, sc.leaves.size(), sc.close_kind == 0 ? "complete" : sc.close_kind == 1 ? "cleanup" : "request_stop+complete", sc.close_yields);
  bool nt = false;
  detsched::Options o; o.max_steps = 30000;
  auto res = detsched::run(c, o, [&] { bool dry = detsched::in_dry_run(); bool ig = false; run_script(sc, !dry, dry ? ig : nt); });
  cx.desc += " | " + res.schedule;
  cx.nontrivial = nt && !res.inconclusive;
  if (res.inconclusive) cx.label("inconclusive(step budget)");
}
