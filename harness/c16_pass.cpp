// C16 (async_pass) — rendezvous atomicity under schedule control (C++20).
// One caller thread and one acceptor thread each run a generated list of
// operations on an async_pass<Pay> (at most one outstanding caller and one
// outstanding acceptor, as the implementation requires), stopper threads cancel
// outstanding operations.  A call completes with value iff exactly one accept
// received its payload; a cancelled side leaves the other pending and the
// arguments untouched; try_* succeed only when the counterpart is waiting.
#include "kit/case.hpp"
#include "kit/dk.hpp"

#include <unifex/async_pass.hpp>

#include <optional>
#include <set>
#include <thread>

using namespace unifex;

// (not in an anonymous namespace: async_pass declares a constraint-only function over the payload type)
void pay_moved_hook(int id);   // the argument of call #id is being transferred (the rendezvous is in progress): a scheduling point
struct Pay {
  int id = -1; int* moves = nullptr; int* copies = nullptr;
  Pay() = default;
  Pay(int i, int* m, int* c) : id(i), moves(m), copies(c) {}
  Pay(Pay&& o) noexcept : id(o.id), moves(o.moves), copies(o.copies) { if (moves) { (*moves)++; pay_moved_hook(id); } }
  Pay(const Pay& o) noexcept : id(o.id), moves(o.moves), copies(o.copies) { if (copies) (*copies)++; }
  Pay& operator=(Pay&& o) noexcept { id = o.id; moves = o.moves; copies = o.copies; if (moves) (*moves)++; return *this; }
  Pay& operator=(const Pay& o) noexcept { id = o.id; moves = o.moves; copies = o.copies; if (copies) (*copies)++; return *this; }
};
struct PassError { int id; };

namespace {
const char* P = "C16";



struct OpRec {
  int side = 0;        // 0 caller, 1 acceptor
  int kind = 0;        // caller: 0 async_call, 1 try_call, 2 async_throw ; acceptor: 0 async_accept, 1 try_accept
  int stop_mode = 0;   // 0 none, 1 before start, 2 stopper thread
  int signals = 0; int chan = dk::NONE; long t_begin = -1, t_end = -1, t_done = -1, t_stop = -1; int ctx = -1;
  bool try_ok = false; bool claimed = false;   // caller: its argument has started to move (an acceptor claimed the call)
  int got_id = -1;     // acceptor: id of the payload / error received
  int moves = 0, copies = 0;   // caller: how often the original argument was moved/copied from
  std::unique_ptr<inplace_stop_source> src;
};
struct World { std::vector<OpRec> ops; dk::DCtx ctx; bool use_ctx = false; bool caller_finished = false, acceptor_finished = false; bool caller2_active = false; };
World* g_w;
}  // namespace
void pay_moved_hook(int id) {
  if (g_w && id >= 0 && (size_t)id < g_w->ops.size()) { g_w->ops[(size_t)id].claimed = true; detsched::step(); }
}
namespace {

template <class Sched>
struct CRecv {   // caller-side receiver
  int id; Sched sched;
  void done(int chan) noexcept {
    OpRec& o = g_w->ops[(size_t)id];
    o.signals++;
    if (o.signals > 1) { vk::ctx().fail("C01", "double_completion", "async_pass caller operation #%d completed %d times", id, o.signals); return; }
    o.chan = chan; o.t_done = dk::tick(); o.ctx = dk::current_ctx();
    vk::ctx().tr("#%ld caller op #%d completes with %s", o.t_done, id, dk::chan_name(chan));
    detsched::step();
  }
  void set_value() && noexcept { done(dk::VALUE); }
  template <class E> void set_error(E&&) && noexcept { done(dk::ERROR); }
  void set_done() && noexcept { done(dk::DONE); }
  friend inplace_stop_token tag_invoke(tag_t<get_stop_token>, const CRecv& r) noexcept { auto& o = g_w->ops[(size_t)r.id]; return o.src ? o.src->get_token() : inplace_stop_token{}; }
  friend Sched tag_invoke(tag_t<get_scheduler>, const CRecv& r) noexcept { return r.sched; }
};
template <class Sched>
struct ARecv {   // acceptor-side receiver
  int id; Sched sched;
  void fin(int chan, int got) noexcept {
    OpRec& o = g_w->ops[(size_t)id];
    o.signals++;
    if (o.signals > 1) { vk::ctx().fail("C01", "double_completion", "async_accept #%d completed %d times", id, o.signals); return; }
    o.chan = chan; o.got_id = got; o.t_done = dk::tick(); o.ctx = dk::current_ctx();
    vk::ctx().tr("#%ld accept #%d completes with %s payload=%d", o.t_done, id, dk::chan_name(chan), got);
    detsched::step();
  }
  void set_value(Pay&& p) && noexcept { fin(dk::VALUE, p.id); }
  void set_error(std::exception_ptr e) && noexcept {
    int got = -1;
    try { std::rethrow_exception(e); } catch (const PassError& pe) { got = pe.id; } catch (...) {}
    fin(dk::ERROR, got);
  }
  template <class E> void set_error(E&&) && noexcept { fin(dk::ERROR, -1); }
  void set_done() && noexcept { fin(dk::DONE, -1); }
  friend inplace_stop_token tag_invoke(tag_t<get_stop_token>, const ARecv& r) noexcept { auto& o = g_w->ops[(size_t)r.id]; return o.src ? o.src->get_token() : inplace_stop_token{}; }
  friend Sched tag_invoke(tag_t<get_scheduler>, const ARecv& r) noexcept { return r.sched; }
};

struct Script { bool use_ctx = false; std::vector<int> caller, acceptor; std::vector<OpRec> proto; std::vector<std::pair<int, int>> stops;
  int caller2 = -1; };   // a further async_call issued by a second caller thread as soon as the first call of the caller thread has been claimed (the pass is idle again) but possibly before that call has completed

Script decode(vk::Choice& c) {
  Script s;
  s.use_ctx = c.chance(1, 3);
  int nc = 1 + (int)c.upto(3), na = 1 + (int)c.upto(3);
  for (int k = 0; k < nc; ++k) {
    OpRec o; o.side = 0; unsigned w = c.upto(10); o.kind = w < 6 ? 0 : w < 8 ? 1 : 2;
    if (o.kind != 1) { unsigned m = c.upto(10); o.stop_mode = m < 6 ? 0 : m < 7 ? 1 : 2; }
    s.caller.push_back((int)s.proto.size()); s.proto.push_back(std::move(o));
  }
  for (int k = 0; k < na; ++k) {
    OpRec o; o.side = 1; o.kind = c.chance(1, 4) ? 1 : 0;
    if (o.kind == 0) { unsigned m = c.upto(10); o.stop_mode = m < 6 ? 0 : m < 7 ? 1 : 2; }
    s.acceptor.push_back((int)s.proto.size()); s.proto.push_back(std::move(o));
  }
  for (size_t i = 0; i < s.proto.size(); ++i) if (s.proto[i].stop_mode == 2) s.stops.emplace_back((int)i, (int)c.upto(10));
  // derived from the hash of the script (consumes no bytes, so recorded byte strings keep their schedules)
  if (vk::ctx().argi("legacy", 0) == 0 && s.proto[(size_t)s.caller[0]].kind == 0 && c.h % 3 == 0) {
    OpRec o; o.side = 0; o.kind = 0; o.stop_mode = 0;
    s.caller2 = (int)s.proto.size(); s.proto.push_back(std::move(o));
    c.mix(77);
  }
  return s;
}

std::string describe(const Script& s) {
  static const char* ck[] = {"async_call", "try_call", "async_throw"}; static const char* ak[] = {"async_accept", "try_accept"};
  std::string d = vk::sfmt("async_pass<Pay>, scheduler=%s: caller[", s.use_ctx ? "worker-context" : "inline");
  for (int i : s.caller) d += vk::sfmt("#%d:%s%s ", i, ck[s.proto[(size_t)i].kind], s.proto[(size_t)i].stop_mode == 1 ? "(pre-stopped)" : s.proto[(size_t)i].stop_mode == 2 ? "(stopper)" : "");
  if (s.caller2 >= 0) d += vk::sfmt("] second-caller[#%d:async_call once #%d is claimed", s.caller2, s.caller[0]);
  d += "] acceptor[";
  for (int i : s.acceptor) d += vk::sfmt("#%d:%s%s ", i, ak[s.proto[(size_t)i].kind], s.proto[(size_t)i].stop_mode == 1 ? "(pre-stopped)" : s.proto[(size_t)i].stop_mode == 2 ? "(stopper)" : "");
  return d + "]";
}

template <class Sched>
void run_script(const Script& sc, bool check, bool& nontrivial, Sched sched, World& W) {
  auto& cx = vk::ctx();
  dk::clock_ref() = 0;
  async_pass<Pay> pass;
  W.ops.clear(); W.caller_finished = W.acceptor_finished = false;
  for (auto& p : sc.proto) { OpRec o; o.side = p.side; o.kind = p.kind; o.stop_mode = p.stop_mode; o.src = std::make_unique<inplace_stop_source>(); W.ops.push_back(std::move(o)); }
  for (auto& o : W.ops) if (o.stop_mode == 1) { o.t_stop = dk::tick(); o.src->request_stop(); }
  std::thread worker;
  if (sc.use_ctx) worker = std::thread([&W] { W.ctx.run(); });
  // waits for completion; once the counterpart thread has finished its list nobody can complete us: cancel
  auto wait_or_cancel = [&](OpRec& o, bool& other_finished) {
    dk::wait_for([&] {
      if (o.signals > 0) return true;
      if (other_finished && o.t_stop < 0) { o.t_stop = dk::tick(); cx.tr("#%ld harness: counterpart finished, cancelling outstanding operation", o.t_stop); o.src->request_stop(); }
      return false;
    });
  };
  bool caller2_finished = sc.caller2 < 0; bool callers_finished = false;
  std::thread caller([&] {
    for (int id : sc.caller) {
      OpRec& o = W.ops[(size_t)id];
      // (two calls must never be parked at once: the second caller thread's call has to be over before this thread's second operation)
      if (id != sc.caller[0]) dk::wait_for([&] { return caller2_finished; });
      detsched::step();
      Pay pay(id, &o.moves, &o.copies);
      o.t_begin = dk::tick();
      if (o.kind == 1) {
        o.try_ok = pass.try_call(std::move(pay));
        o.t_end = dk::tick(); o.chan = o.try_ok ? dk::VALUE : dk::NONE;
        cx.tr("#%ld try_call #%d -> %d", o.t_end, id, (int)o.try_ok);
      } else if (o.kind == 0) {
        auto snd = pass.async_call(std::move(pay));
        using Op = connect_result_t<decltype(snd), CRecv<Sched>>;
        dk::OpBox<Op> box; box.emplace(std::move(snd), CRecv<Sched>{id, sched});
        cx.tr("#%ld async_call #%d start()", o.t_begin, id);
        start(*box.op); o.t_end = dk::tick();
        wait_or_cancel(o, W.acceptor_finished);
        box.reset();
      } else {
        auto snd = pass.async_throw(std::make_exception_ptr(PassError{id}));
        using Op = connect_result_t<decltype(snd), CRecv<Sched>>;
        dk::OpBox<Op> box; box.emplace(std::move(snd), CRecv<Sched>{id, sched});
        cx.tr("#%ld async_throw #%d start()", o.t_begin, id);
        start(*box.op); o.t_end = dk::tick();
        wait_or_cancel(o, W.acceptor_finished);
        box.reset();
      }
    }
    W.caller_finished = true; callers_finished = caller2_finished;
  });
  std::thread caller2;
  if (sc.caller2 >= 0) caller2 = std::thread([&] {
    OpRec& first = W.ops[(size_t)sc.caller[0]];
    dk::wait_for([&] { return first.claimed || first.signals > 0 || W.caller_finished; });
    // only while the caller thread's own next call cannot be outstanding at the same time: the first call is claimed and not yet completed
    if (first.claimed && first.signals == 0 && !W.caller_finished) {
      int id = sc.caller2; OpRec& o = W.ops[(size_t)id];
      W.caller2_active = true;
      Pay pay(id, &o.moves, &o.copies);
      o.t_begin = dk::tick();
      auto snd = pass.async_call(std::move(pay));
      using Op = connect_result_t<decltype(snd), CRecv<Sched>>;
      dk::OpBox<Op> box; box.emplace(std::move(snd), CRecv<Sched>{id, sched});
      cx.tr("#%ld async_call #%d start() (second caller; call #%d is claimed but not completed)", o.t_begin, id, sc.caller[0]);
      vk::ctx().label("second-call-parks-during-rendezvous");
      start(*box.op); o.t_end = dk::tick();
      wait_or_cancel(o, W.acceptor_finished);
      box.reset();
      W.caller2_active = false;
    }
    caller2_finished = true; callers_finished = W.caller_finished;
  });
  std::thread acceptor([&] {
    for (int id : sc.acceptor) {
      OpRec& o = W.ops[(size_t)id];
      detsched::step();
      o.t_begin = dk::tick();
      if (o.kind == 1) {
        try {
          auto r = pass.try_accept();
          o.try_ok = r.has_value();
          if (r) o.got_id = std::get<0>(*r).id;
          o.chan = r ? dk::VALUE : dk::NONE;
        } catch (const PassError& pe) { o.try_ok = true; o.got_id = pe.id; o.chan = dk::ERROR; }
        o.t_end = dk::tick();
        cx.tr("#%ld try_accept #%d -> %d payload=%d", o.t_end, id, (int)o.try_ok, o.got_id);
      } else {
        auto snd = pass.async_accept();
        using Op = connect_result_t<decltype(snd), ARecv<Sched>>;
        dk::OpBox<Op> box; box.emplace(std::move(snd), ARecv<Sched>{id, sched});
        cx.tr("#%ld async_accept #%d start()", o.t_begin, id);
        start(*box.op); o.t_end = dk::tick();
        wait_or_cancel(o, callers_finished);
        box.reset();
      }
    }
    W.acceptor_finished = true;
  });
  std::thread stopper;
  if (!sc.stops.empty()) stopper = std::thread([&] {
    for (auto& p : sc.stops) {
      for (int k = 0; k < p.second; ++k) detsched::yield_now();
      OpRec& o = W.ops[(size_t)p.first];
      if (o.t_stop < 0) { o.t_stop = dk::tick(); cx.tr("#%ld stopper: request_stop on #%d", o.t_stop, p.first); o.src->request_stop(); }
    }
  });
  caller.join(); acceptor.join(); if (caller2.joinable()) caller2.join();
  if (stopper.joinable()) stopper.join();
  if (sc.use_ctx) { W.ctx.request_stop(); worker.join(); }
  if (!pass.is_idle()) cx.fail(P, "pass_not_idle", "all operations completed but is_idle() is false");
  if (dk::graveyard().parked) dk::graveyard().parked = 0;
  dk::free_graveyard();
  if (!check) return;

  std::multiset<int> delivered_vals, delivered_errs;
  for (auto& o : W.ops) if (o.side == 1) { if (o.chan == dk::VALUE) delivered_vals.insert(o.got_id); if (o.chan == dk::ERROR) delivered_errs.insert(o.got_id); }
  bool any_stop = false;
  for (size_t i = 0; i < W.ops.size(); ++i) {
    OpRec& o = W.ops[i];
    if (o.t_begin < 0) continue;
    bool async = (o.side == 0 && o.kind != 1) || (o.side == 1 && o.kind == 0);
    if (async && o.signals != 1) { cx.fail(P, "op_stranded", "async_pass operation #%zu completed %d times", i, o.signals); continue; }
    if (async && o.chan == dk::DONE && o.t_stop < 0) cx.fail(P, "done_without_stop", "operation #%zu completed with done although its stop token never fired", i);
    if (o.t_stop >= 0) any_stop = true;
    if (sc.use_ctx && async && o.ctx != W.ctx.id) cx.fail("C11", "completion_context", "operation #%zu completed on context %d, not on its receiver's scheduler (context %d)", i, o.ctx, W.ctx.id);
    if (o.side == 0) {
      bool succeeded = (o.kind == 1) ? o.try_ok : o.chan == dk::VALUE;
      size_t n = (o.kind == 2 ? delivered_errs : delivered_vals).count((int)i);
      if (succeeded && n != 1) cx.fail(P, "call_without_accept", "call #%zu %s but its payload was received by %zu accept operations", i, o.kind == 1 ? "returned true" : "completed with value", n);
      if (!succeeded && n != 0) cx.fail(P, "accept_without_call", "call #%zu %s but its payload was received by an accept", i, o.kind == 1 ? "returned false" : (o.chan == dk::DONE ? "was cancelled (done)" : "did not complete with value"));
      if (!succeeded && (o.moves != 0 || o.copies != 0)) cx.fail(P, "args_touched_on_cancel", "call #%zu did not succeed but its argument was moved %d / copied %d times", i, o.moves, o.copies);
      if (o.chan == dk::ERROR) cx.fail(P, "unexpected_error", "call #%zu completed with error", i);
    } else {
      if ((o.chan == dk::VALUE || o.chan == dk::ERROR) && (o.got_id < 0 || (size_t)o.got_id >= W.ops.size() || W.ops[(size_t)o.got_id].side != 0))
        cx.fail(P, "invented_payload", "accept #%zu received payload id %d which no call sent", i, o.got_id);
    }
  }
  for (int v : delivered_vals) if (delivered_vals.count(v) > 1) cx.fail(P, "payload_duplicated", "payload of call #%d was received by more than one accept", v);
  nontrivial = W.ops.size() >= 2;
  bool rendezvous = !delivered_vals.empty() || !delivered_errs.empty();
  if (rendezvous) cx.label("rendezvous-happened");
  if (any_stop) cx.label("stop-involved");
}

}  // namespace

extern "C" const char* vk_harness_name() { return "c16_pass"; }
const char* vk_nontrivial_rule() {
  return "scripts: async_pass<Pay> with a caller thread (1-3 of async_call / try_call / async_throw) and an acceptor thread (1-3 of async_accept / try_accept), per-operation stop {none, before start, stopper thread}, "
         "receivers' scheduler inline or worker context; an outstanding operation whose counterpart thread has finished is cancelled by the harness; schedule from the same bytes (detsched). "
         "non-trivial = both sides issued operations (always) -- counted distinct by hash of script + schedule; labels say how many had a rendezvous / a stop";
}

void vk_run_case(vk::Choice& c) {
  auto& cx = vk::ctx();
  Script sc = decode(c);
  cx.desc = describe(sc);
  bool nt = false;
  detsched::Options o; o.max_steps = 40000;
  auto res = detsched::run(c, o, [&] {
    World W; g_w = &W; W.use_ctx = sc.use_ctx; W.ctx.id = 5;
    bool dry = detsched::in_dry_run(); bool ig = false;
    if (sc.use_ctx) run_script(sc, !dry, dry ? ig : nt, W.ctx.get_scheduler(), W);
    else run_script(sc, !dry, dry ? ig : nt, inline_scheduler{}, W);
    g_w = nullptr;
  });
  cx.desc += " | " + res.schedule;
  cx.nontrivial = nt && !res.inconclusive;
  if (res.inconclusive) cx.label("inconclusive(step budget)");
}
