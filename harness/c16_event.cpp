// C16 (events) — async_manual_reset_event v1/v2 and async_auto_reset_event under
// schedule control.  A wait completes iff the event is or becomes set; no wait
// racing with set() is stranded; reset() only affects later waits; auto-reset
// hands each set() to at most one next() and turns permanently done.
#include "kit/case.hpp"
#include "kit/dk.hpp"

#include <unifex/async_auto_reset_event.hpp>
#include <unifex/v1/async_manual_reset_event.hpp>
#include <unifex/v2/async_manual_reset_event.hpp>
#include <unifex/stream_concepts.hpp>

#include <thread>

using namespace unifex;

namespace {
const char* P = "C16";

struct Ev { long b = -1, e = -1; int kind = 0; int val = 0; };   // kind 0 set, 1 reset, 2 ready()
struct Wait {
  int thread = 0; int stop_mode = 0;
  long t_start_begin = -1, t_start_end = -1, t_done = -1, t_stop = -1;
  int signals = 0; int chan = dk::NONE; int ctx = -1; bool phase1 = false;
  std::unique_ptr<inplace_stop_source> src;
};
struct World { std::vector<Wait> waits; std::vector<Ev> evs; dk::DCtx ctx; bool use_ctx = false; };
World* g_w;

template <class Sched>
struct WRecv {
  int id; Sched sched;
  void done(int chan) noexcept {
    Wait& w = g_w->waits[(size_t)id];
    w.signals++;
    if (w.signals > 1) { vk::ctx().fail("C01", "double_completion", "async_wait #%d completed %d times", id, w.signals); return; }
    w.chan = chan; w.t_done = dk::tick(); w.ctx = dk::current_ctx();
    vk::ctx().tr("#%ld wait #%d completes with %s (T%d ctx%d)", w.t_done, id, dk::chan_name(chan), detsched::current_thread(), w.ctx);
    detsched::step();
  }
  void set_value() && noexcept { done(dk::VALUE); }
  template <class E> void set_error(E&&) && noexcept { done(dk::ERROR); }
  void set_done() && noexcept { done(dk::DONE); }
  friend inplace_stop_token tag_invoke(tag_t<get_stop_token>, const WRecv& r) noexcept { auto& w = g_w->waits[(size_t)r.id]; return w.src ? w.src->get_token() : inplace_stop_token{}; }
  friend Sched tag_invoke(tag_t<get_scheduler>, const WRecv& r) noexcept { return r.sched; }
};

struct TOp { int kind; int arg; };   // 0 set, 1 reset, 2 ready, 3 wait(arg = wait id)
struct Script {
  int variant = 2; bool initially_set = false; bool use_ctx = false; int T = 2;
  std::vector<std::vector<TOp>> ops;
  std::vector<Wait> proto;
  std::vector<std::pair<int, int>> stops;
};

Script decode(vk::Choice& c) {
  Script s;
  s.variant = c.flag() ? 2 : 1;
  s.initially_set = c.chance(1, 4);
  s.use_ctx = c.chance(1, 3);
  s.T = 2 + (int)c.upto(3);
  s.ops.resize((size_t)s.T);
  for (int t = 0; t < s.T; ++t) {
    int n = 1 + (int)c.upto(4);
    for (int k = 0; k < n; ++k) {
      unsigned w = c.upto(10);
      if (w < 3) s.ops[(size_t)t].push_back({0, 0});
      else if (w < 5) s.ops[(size_t)t].push_back({1, 0});
      else if (w < 6) s.ops[(size_t)t].push_back({2, 0});
      else {
        Wait wt; wt.thread = t;
        if (s.variant == 2) { unsigned m = c.upto(10); wt.stop_mode = m < 6 ? 0 : m < 7 ? 1 : 2; }
        s.ops[(size_t)t].push_back({3, (int)s.proto.size()});
        s.proto.push_back(std::move(wt));
      }
    }
  }
  for (size_t i = 0; i < s.proto.size(); ++i) if (s.proto[i].stop_mode == 2) s.stops.emplace_back((int)i, (int)c.upto(10));
  return s;
}

std::string describe(const Script& s) {
  std::string d = vk::sfmt("async_manual_reset_event v%d%s, scheduler=%s:", s.variant, s.initially_set ? " (initially set)" : "", s.use_ctx ? "worker-context" : "inline");
  for (int t = 0; t < s.T; ++t) {
    d += vk::sfmt(" T%d[", t + 1);
    for (auto& o : s.ops[(size_t)t]) d += o.kind == 0 ? "set " : o.kind == 1 ? "reset " : o.kind == 2 ? "ready " : vk::sfmt("wait#%d%s ", o.arg, s.proto[(size_t)o.arg].stop_mode == 1 ? "(pre-stopped)" : s.proto[(size_t)o.arg].stop_mode == 2 ? "(stopper)" : "");
    d += "]";
  }
  return d;
}

template <class Event, class Sched>
void run_script(const Script& sc, bool check, bool& nontrivial, Sched sched, World& W) {
  auto& cx = vk::ctx();
  dk::clock_ref() = 0;
  Event evt(sc.initially_set);
  W.waits.clear(); W.evs.clear();
  for (auto& p : sc.proto) { Wait w; w.thread = p.thread; w.stop_mode = p.stop_mode; if (w.stop_mode) w.src = std::make_unique<inplace_stop_source>(); W.waits.push_back(std::move(w)); }
  for (auto& w : W.waits) if (w.stop_mode == 1) { w.t_stop = dk::tick(); w.src->request_stop(); }
  using Op = connect_result_t<decltype(evt.async_wait()), WRecv<Sched>>;
  std::vector<std::unique_ptr<dk::OpBox<Op>>> boxes(W.waits.size());
  std::thread worker;
  if (sc.use_ctx) worker = std::thread([&W] { W.ctx.run(); });
  std::vector<std::thread> th;
  for (int t = 0; t < sc.T; ++t) th.emplace_back([&, t] {
    for (auto& o : sc.ops[(size_t)t]) {
      detsched::step();
      if (o.kind == 0) { Ev e; e.kind = 0; e.b = dk::tick(); cx.tr("#%ld T%d set()", e.b, t + 1); evt.set(); e.e = dk::tick(); W.evs.push_back(e); }
      else if (o.kind == 1) { Ev e; e.kind = 1; e.b = dk::tick(); cx.tr("#%ld T%d reset()", e.b, t + 1); evt.reset(); e.e = dk::tick(); W.evs.push_back(e); }
      else if (o.kind == 2) { Ev e; e.kind = 2; e.b = dk::tick(); e.val = evt.ready(); e.e = dk::tick(); W.evs.push_back(e); }
      else {
        Wait& w = W.waits[(size_t)o.arg];
        boxes[(size_t)o.arg] = std::make_unique<dk::OpBox<Op>>();
        boxes[(size_t)o.arg]->emplace(evt.async_wait(), WRecv<Sched>{o.arg, sched});
        w.t_start_begin = dk::tick();
        cx.tr("#%ld T%d wait #%d start()", w.t_start_begin, t + 1, o.arg);
        start(*boxes[(size_t)o.arg]->op);
        w.t_start_end = dk::tick();
      }
    }
  });
  std::thread stopper;
  if (!sc.stops.empty()) stopper = std::thread([&] {
    for (auto& p : sc.stops) {
      for (int k = 0; k < p.second; ++k) detsched::yield_now();
      Wait& w = W.waits[(size_t)p.first];
      w.t_stop = dk::tick();
      cx.tr("#%ld stopper: request_stop on wait #%d", w.t_stop, p.first);
      w.src->request_stop();
    }
  });
  for (auto& t : th) t.join();
  if (stopper.joinable()) stopper.join();
  // phase 1 ends: let the worker context drain (completions that are already scheduled)
  if (sc.use_ctx) dk::wait_for([&] { return W.ctx.q.empty(); });
  for (int k = 0; k < 3; ++k) detsched::yield_now();
  long t_phase1 = dk::tick();
  for (auto& w : W.waits) w.phase1 = w.signals > 0;
  // phase 2: a final set() must release every wait that is still pending
  cx.tr("#%ld main: final set()", t_phase1);
  evt.set();
  dk::wait_for([&] { for (auto& w : W.waits) if (w.t_start_begin >= 0 && w.signals == 0) return false; return true; });
  if (sc.use_ctx) { W.ctx.request_stop(); worker.join(); }
  for (auto& b : boxes) if (b) b->reset();
  if (dk::graveyard().parked) { cx.label("op-memory-kept-until-end(known finding)"); dk::graveyard().parked = 0; }
  dk::free_graveyard();
  if (!check) return;

  auto sets_before = [&](long t) { for (auto& e : W.evs) if (e.kind == 0 && e.e < t) return true; return false; };
  bool racing = false;
  for (size_t i = 0; i < W.waits.size(); ++i) {
    Wait& w = W.waits[i];
    if (w.t_start_begin < 0) continue;
    if (w.signals != 1) { cx.fail(P, "wait_stranded", "async_wait #%zu was started and the event was finally set, but it completed %d times", i, w.signals); continue; }
    if (w.chan == dk::ERROR) cx.fail(P, "unexpected_error", "async_wait #%zu completed with an error", i);
    if (w.chan == dk::DONE && w.t_stop < 0) cx.fail(P, "done_without_stop", "async_wait #%zu completed with done although its stop token never fired", i);
    if (sc.use_ctx && w.ctx != W.ctx.id) cx.fail("C11", "completion_context", "async_wait #%zu completed on context %d, not on its receiver's scheduler (context %d)", i, w.ctx, W.ctx.id);
    // definitely set when the wait started: some set() returned before start began (or initially set) and every reset() that began ... ended before that set began
    bool def_set = false;
    {
      long last_set_e = sc.initially_set ? 0 : -1; long last_set_b = sc.initially_set ? 0 : -1;
      for (auto& e : W.evs) if (e.kind == 0 && e.e < w.t_start_begin && e.e > last_set_e) { last_set_e = e.e; last_set_b = e.b; }
      if (last_set_e >= 0) {
        def_set = true;
        for (auto& e : W.evs) if (e.kind == 1 && e.e > last_set_b && e.b < w.t_start_end) def_set = false;   // a reset that may be ordered after that set and before the wait
      }
    }
    // definitely unset for the whole of phase 1: a reset returned before the wait began (or never set), and no set() overlaps or follows it before the end of phase 1
    bool def_unset = false;
    {
      bool any_set_possible = false;
      long reset_e = -1;
      for (auto& e : W.evs) if (e.kind == 1 && e.e < w.t_start_begin && e.e > reset_e) reset_e = e.e;
      if (reset_e >= 0 || !sc.initially_set) {
        long floor = reset_e >= 0 ? reset_e : -1;
        for (auto& e : W.evs) if (e.kind == 0 && e.e > floor) any_set_possible = true;   // a set that ended after the reset returned may have (re)set the event
        if (reset_e < 0) { for (auto& e : W.evs) if (e.kind == 0) any_set_possible = true; }
        def_unset = !any_set_possible;
      }
    }
    if (def_set && !w.phase1 && w.stop_mode == 0) cx.fail(P, "wait_on_set_event_pending", "async_wait #%zu started (at %ld) while the event was set, but needed another set() to complete", i, w.t_start_begin);
    if (def_unset && w.phase1 && w.chan == dk::VALUE) cx.fail(P, "wait_completed_without_set", "async_wait #%zu started (at %ld) after reset() / on a never-set event and no set() followed, yet it completed with value before the final set()", i, w.t_start_begin);
    for (auto& e : W.evs) if (e.kind == 0 && e.b < w.t_start_end && e.e > w.t_start_begin) racing = true;
    (void)sets_before;
  }
  // ready(): true right after a set() that is not followed/overlapped by a reset; false after a reset not followed by a set
  for (auto& r : W.evs) if (r.kind == 2) {
    long s_e = sc.initially_set ? 0 : -1, s_b = s_e;
    for (auto& e : W.evs) if (e.kind == 0 && e.e < r.b && e.e > s_e) { s_e = e.e; s_b = e.b; }
    bool def_set = s_e >= 0; for (auto& e : W.evs) if (e.kind == 1 && e.e > s_b && e.b < r.e) def_set = false;
    if (def_set && !r.val) cx.fail(P, "ready_false_on_set_event", "ready() returned false (at %ld) although set() had returned (%ld) and no reset() followed", r.b, s_e);
    bool any_set = sc.initially_set; for (auto& e : W.evs) if (e.kind == 0 && e.b < r.e) any_set = true;
    if (!any_set && r.val) cx.fail(P, "ready_true_without_set", "ready() returned true although set() was never called");
  }
  nontrivial = racing || !sc.stops.empty();
  if (racing) cx.label("set-races-wait-start");
  for (auto& w : W.waits) if (w.chan == dk::DONE) { cx.label("wait-cancelled"); break; }
}

// ------------------------------------------------------------------ auto-reset event
struct NRecv {
  int* signals; int* chan; long* t; dk::DCtx::scheduler sched; inplace_stop_source* src;
  void done(int c) noexcept { (*signals)++; *chan = c; *t = dk::tick(); detsched::step(); }
  void set_value() && noexcept { done(dk::VALUE); }
  template <class E> void set_error(E&&) && noexcept { done(dk::ERROR); }
  void set_done() && noexcept { done(dk::DONE); }
  friend inplace_stop_token tag_invoke(tag_t<get_stop_token>, const NRecv& r) noexcept { return r.src ? r.src->get_token() : inplace_stop_token{}; }
  friend dk::DCtx::scheduler tag_invoke(tag_t<get_scheduler>, const NRecv& r) noexcept { return r.sched; }
};

void auto_reset_case(vk::Choice& c) {
  auto& cx = vk::ctx();
  bool start_ready = c.chance(1, 4);
  int nsets = (int)c.upto(5); int setters = 1 + (int)c.upto(2);
  bool stop_consumer = c.chance(1, 3); int stop_after = (int)c.upto(12);
  cx.desc = vk::sfmt("async_auto_reset_event%s: %d setter thread(s) x %d set() then set_done(); consumer loops next() until done%s", start_ready ? " (born ready)" : "", setters, nsets, stop_consumer ? vk::sfmt("; consumer's token stopped after %d yields", stop_after).c_str() : "");
  int values = 0, dones = 0; long set_calls = 0; bool done_then_value = false; bool nt = false;
  detsched::Options o; o.max_steps = 40000;
  auto res = detsched::run(c, o, [&] {
    dk::clock_ref() = 0;
    values = dones = 0; set_calls = 0; done_then_value = false;
    async_auto_reset_event evt(start_ready);
    dk::DCtx ctx; ctx.id = 5;
    std::thread worker([&] { ctx.run(); });
    inplace_stop_source src;
    std::vector<std::thread> th;
    int finished_setters = 0;
    for (int s = 0; s < setters; ++s) th.emplace_back([&] {
      for (int k = 0; k < nsets; ++k) { detsched::step(); set_calls++; evt.set(); }
      if (++finished_setters == setters) { detsched::step(); evt.set_done(); }
    });
    std::thread stopper;
    if (stop_consumer) stopper = std::thread([&] { for (int k = 0; k < stop_after; ++k) detsched::yield_now(); src.request_stop(); });
    auto stream = evt.stream();
    bool saw_done = false;
    for (int round = 0; round < 64; ++round) {
      int signals = 0, chan = dk::NONE; long t = -1;
      using Op = connect_result_t<decltype(next(stream)), NRecv>;
      dk::OpBox<Op> box;
      box.emplace(next(stream), NRecv{&signals, &chan, &t, ctx.get_scheduler(), &src});
      start(*box.op);
      dk::wait_for([&] { return signals > 0; });
      if (signals != 1) cx.fail("C01", "double_completion", "next() of the auto-reset event completed %d times", signals);
      box.reset();
      if (chan == dk::VALUE) { values++; if (saw_done) done_then_value = true; }
      else if (chan == dk::DONE) { dones++; saw_done = true; if (dones >= 2) break; }
      else { cx.fail(P, "unexpected_error", "next() completed with error"); break; }
    }
    {
      int signals = 0, chan = dk::NONE; long t = -1;
      using Op = connect_result_t<decltype(cleanup(stream)), NRecv>;
      dk::OpBox<Op> box;
      box.emplace(cleanup(stream), NRecv{&signals, &chan, &t, ctx.get_scheduler(), nullptr});
      start(*box.op);
      dk::wait_for([&] { return signals > 0; });
    }
    for (auto& t : th) t.join();
    if (stopper.joinable()) stopper.join();
    ctx.request_stop(); worker.join();
    dk::free_graveyard();
  });
  cx.desc += " | " + res.schedule;
  long max_values = set_calls + (start_ready ? 1 : 0);
  if (values > max_values) cx.fail(P, "auto_reset_duplicated", "%d next() operations completed with value but only %ld set() calls were made%s", values, set_calls, start_ready ? " (+1: born ready)" : "");
  if (done_then_value) cx.fail(P, "auto_reset_value_after_done", "a next() completed with value after an earlier next() had completed with done");
  if (dones < 2) cx.fail(P, "auto_reset_not_permanently_done", "after set_done() two consecutive next() operations must complete with done; saw %d", dones);
  nt = nsets > 0;
  cx.nontrivial = nt && !res.inconclusive;
  cx.label("auto-reset");
}

}  // namespace

extern "C" const char* vk_harness_name() { return "c16_event"; }
const char* vk_nontrivial_rule() {
  return "scripts: async_manual_reset_event v1|v2 (optionally initially set), 2-4 threads x 1-4 operations {set, reset, ready, async_wait (v2: stop none/before start/by stopper)}, receivers' scheduler inline or worker context, "
         "then a quiescence point and a final set(); or async_auto_reset_event with 1-2 setter threads, a consumer looping next() and an optional stop; schedule from the same bytes (detsched). "
         "non-trivial = a set() overlapping a wait's start() or a stopper thread (manual-reset), >=1 set() (auto-reset); distinct = hash of decoded script + schedule";
}

void vk_run_case(vk::Choice& c) {
  auto& cx = vk::ctx();
  if (c.upto(5) == 0) { auto_reset_case(c); return; }
  Script sc = decode(c);
  cx.desc = describe(sc);
  bool nt = false;
  detsched::Options o; o.max_steps = 40000;
  auto res = detsched::run(c, o, [&] {
    World W; g_w = &W; W.use_ctx = sc.use_ctx; W.ctx.id = 5;
    bool dry = detsched::in_dry_run(); bool ig = false;
    if (sc.variant == 1) { if (sc.use_ctx) run_script<unifex::v1::async_manual_reset_event>(sc, !dry, dry ? ig : nt, W.ctx.get_scheduler(), W); else run_script<unifex::v1::async_manual_reset_event>(sc, !dry, dry ? ig : nt, inline_scheduler{}, W); }
    else { if (sc.use_ctx) run_script<unifex::v2::async_manual_reset_event>(sc, !dry, dry ? ig : nt, W.ctx.get_scheduler(), W); else run_script<unifex::v2::async_manual_reset_event>(sc, !dry, dry ? ig : nt, inline_scheduler{}, W); }
    g_w = nullptr;
  });
  cx.desc += " | " + res.schedule;
  cx.nontrivial = nt && !res.inconclusive;
  cx.label(vk::sfmt("v%d", sc.variant));
  if (res.inconclusive) cx.label("inconclusive(step budget)");
}
