// exprfuzz — generated sender programs against a reference model.
// Serves C01 (exactly-once), C02 (lifetimes / faults / poison differential),
// C04 (stop propagation, no callback outlives completion), C05 (results),
// and the context/query parts of C11/C12.  Shapes are statically typed C++
// expressions emitted by exprfuzz/gen_shapes.py; everything else about a case
// (leaf outcomes and timing, completion order, stop timing, faults, storage
// poison, whether the receiver destroys the operation inside its completion)
// is decoded from the case bytes.
#include "exprfuzz/runner.hpp"
#include "exprfuzz/plan.hpp"

#include <set>
#include <sstream>

namespace ef {

static bool g_compare = true;      // model comparison active for this run
static bool g_diverged = false;
static Model* g_model = nullptr;
static bool g_delete_inplace = false;

struct Action { int type; int leaf, inst, kind, ctx; };   // type 0: request_stop on the root source, 1: fire a pending event
static std::vector<Action> g_actions;

// KNOWN FINDING async_trace_chain_stops: adaptors whose internal receivers do not customise visit_continuations (the chain reported by
// async_trace ends there); filled from the survey (--trace-survey=1), see known_findings.json
static bool trace_blind_kind(int k) {
  switch (k) {
    case K_ANY: case K_LET_DONE: case K_LVWSS: case K_NEST: case K_NEST_CLOSED: case K_STOP_WHEN: return true;
    default: return false;
  }
}

static std::string key_str(int leaf, int inst, int kind) {
  if (kind == 2) return vk::sfmt("ctx%d-item#%d", leaf - 900, inst);
  return vk::sfmt("leaf%d#%d%s", leaf, inst, kind == 1 ? "(done-after-stop)" : "");
}

void begin_run(const ShapeDesc& sd, RunCtl& ctl, RunState& rs) {
  sr::world_ptr() = &rs.w;
  sr::World& w = rs.w;
  w.spec = ctl.plan.spec;
  for (auto& kv : ctl.plan.node_arg) w.node_arg[kv.first] = kv.second;
  w.fault_node = ctl.plan.fault_node; w.fault_call = ctl.plan.fault_call;
  w.stop_call_node = ctl.plan.stop_call_node; w.stop_call_idx = ctl.plan.stop_call_idx;
  w.throw_at = ctl.plan.anon_fault;
  // KNOWN FINDING value_copy_throw_terminates: excluded by construction = value copies/moves never throw
  // (narrowed: only the shapes in which a throwing value copy can meet one of the unconditionally-noexcept set_value paths, see plan.hpp)
  w.tracked_faults = true;   // (the known finding value_copy_throw_terminates is excluded by detection, see vk_harness_init)
  (void)sd;
  rs.ledger.id = 1;
  if (rs.use_inplace) rs.inplace = new unifex::inplace_stop_source();
  ctl.out = Outcome();
  g_diverged = false;
  g_compare = ctl.plan.anon_fault < 0;
}

static void real_stop(RunState& rs) {
  if (rs.use_inplace) { if (rs.inplace) rs.inplace->request_stop(); }
  else rs.hstop.request_stop();
}

static void compare_step(const ShapeDesc& sd, RunState& rs, Model& m, const char* after) {
  if (m.unspecified && g_compare) { g_compare = false; vk::ctx().label("unspecified-by-docs(when_any under receiver stop)"); }
  if (!g_compare || g_diverged) return;
  sr::World& w = rs.w;
  // pending sets
  std::set<std::tuple<int, int, int>> rp, mp;
  for (auto& e : w.pending) rp.insert({e.leaf, e.inst, e.kind});
  for (auto& k : m.pending()) mp.insert({k.leaf, k.inst, k.kind});
  if (rp != mp) {
    std::string a, b;
    for (auto& t : rp) if (!mp.count(t)) a += key_str(std::get<0>(t), std::get<1>(t), std::get<2>(t)) + " ";
    for (auto& t : mp) if (!rp.count(t)) b += key_str(std::get<0>(t), std::get<1>(t), std::get<2>(t)) + " ";
    g_diverged = true;
    SR_FAIL("C05", "pending_mismatch", "after %s: operations in flight differ from the documented behaviour: only in implementation {%s} only in model {%s} [%s]", after, a.c_str(), b.c_str(), sd.text);
    return;
  }
  // started / stop-seen per leaf run
  for (int l = 0; l < sd.nleaves; ++l) {
    int nr = (size_t)l < w.runs.size() ? (int)w.runs[(size_t)l].size() : 0;
    int nm = m.next_inst.count(l) ? m.next_inst[l] : 0;
    if (nr != nm) {
      g_diverged = true;
      SR_FAIL("C05", "start_count_mismatch", "after %s: leaf%d was started %d time(s), the documented behaviour gives %d [%s]", after, l, nr, nm, sd.text);
      return;
    }
    for (int i = 0; i < nr; ++i) {
      auto& r = w.runs[(size_t)l][(size_t)i]; auto& mr = m.runs[{l, i}];
      if (r.stop_seen != mr.stop_seen) {
        g_diverged = true;
        if (mr.stop_seen) SR_FAIL("C04", "stop_not_delivered", "after %s: leaf%d#%d is %s and should have observed a stop request on its token by now but has not [%s]", after, l, i, r.completed ? "completed" : "running", sd.text);
        else SR_FAIL("C04", "unexpected_stop", "after %s: leaf%d#%d observed a stop request that the documented behaviour does not deliver to it [%s]", after, l, i, sd.text);
        return;
      }
      if (r.completed != mr.completed) {
        g_diverged = true;
        SR_FAIL("C05", "leaf_completion_mismatch", "after %s: leaf%d#%d completed=%d, model=%d [%s]", after, l, i, (int)r.completed, (int)mr.completed, sd.text);
        return;
      }
    }
  }
  bool rdone = w.root_signals > 0;
  if (rdone != m.done) {
    g_diverged = true;
    if (m.done) {
      SR_FAIL("C01", "lost_or_late_completion", "after %s: every child the operation was waiting for has completed and the documented behaviour completes the receiver with %s here, but no completion signal was delivered [%s]", after, sr::chan_name(m.result.chan), sd.text);
    } else {
      SR_FAIL("C05", "early_completion", "after %s: the receiver was completed (%s) although the documented behaviour still waits for children [%s]", after, sr::chan_name(w.root.chan), sd.text);
    }
  }
}

void drive(const ShapeDesc& sd, RunCtl& ctl, RunState& rs, const std::function<void()>& do_start) {
  sr::World& w = rs.w;
  Plan& plan = ctl.plan;
  Model m(sd, plan.spec);
  m.node_arg = plan.node_arg; m.fault_node = plan.fault_node; m.fault_call = plan.fault_call;
  m.stop_call_node = plan.stop_call_node; m.stop_call_idx = plan.stop_call_idx;
  g_model = &m;
  g_delete_inplace = false;
  g_actions.clear();
  auto running_leaves = [&] { int n = 0; for (auto& v : w.runs) for (auto& r : v) if (r.started && !r.completed) n++; return n; };
  w.request_root_stop = [&] {   // a leaf asks for a stop on the root source from inside its start(); the model leaf does the same on its side
    if (w.root_stop_requested) return;
    w.root_stop_requested = true;
    if (running_leaves() > 0) ctl.out.stops_while_running++;
    real_stop(rs);
  };
  auto driver_stop = [&](bool model_too) {
    if (w.root_stop_requested) return;
    w.root_stop_requested = true;
    if (running_leaves() > 0) ctl.out.stops_while_running++;
    SR_TR("driver: request_stop() on the root stop source");
    g_actions.push_back(Action{0, 0, 0, 0, 0});
    real_stop(rs);
    if (model_too) m.request_stop();
  };
  if (plan.destroy_on_completion) {
    w.on_root_complete = [&] {
      SR_TR("root receiver destroys the operation state inside its completion");
      rs.destroy_op();
      g_delete_inplace = true;
    };
  }
  auto after_step = [&] {
    if (g_delete_inplace && rs.inplace) { delete rs.inplace; rs.inplace = nullptr; }
  };

  if (plan.stop_before_start) { driver_stop(true); after_step(); }
  if (plan.never_start) {
    SR_TR("driver: operation is connected but never started");
    g_model = nullptr;
    return;
  }
  ctl.out.started = true;
  w.started = true; w.in_start = true;
  SR_TR("driver: start()");
  do_start();
  w.in_start = false; w.root_start_returned = true;
  m.start();
  after_step();
  compare_step(sd, rs, m, "start()");

  int steps = 0;
  bool flushed = false;
  for (;;) {
    if (++steps > 600) { SR_FAIL("*", "harness_step_limit", "event loop exceeded 600 steps [%s]", sd.text); break; }
    std::sort(w.pending.begin(), w.pending.end(), [](const sr::PendingEvent& a, const sr::PendingEvent& b) { return std::tie(a.leaf, a.inst, a.kind) < std::tie(b.leaf, b.inst, b.kind); });
    bool stop_opt = plan.stop_tokens > 0 && !w.root_stop_requested && w.root_signals == 0;
    size_t nopt = w.pending.size() + (stop_opt ? 1 : 0);
    if (nopt == 0) {
      // nothing left to fire: if leaves that only react to stop are still running, flush them with a final stop request
      if (!flushed && w.root_signals == 0 && !w.root_stop_requested && running_leaves() > 0) { flushed = true; driver_stop(true); after_step(); compare_step(sd, rs, m, "final request_stop()"); continue; }
      break;
    }
    uint32_t pick = ctl.pick((uint32_t)nopt);
    if (stop_opt && pick == w.pending.size()) {
      plan.stop_tokens--;
      driver_stop(true);
      after_step();
      compare_step(sd, rs, m, "request_stop()");
      continue;
    }
    sr::PendingEvent ev = w.pending[pick];
    w.pending.erase(w.pending.begin() + pick);
    std::string what = key_str(ev.leaf, ev.inst, ev.kind);
    int ctx = ev.kind == 2 ? ev.leaf - 900 : plan.spec[(size_t)ev.leaf].at(ev.inst).ctx;
    if (ev.kind != 2) ctl.out.had_deferred = true;
    SR_TR("driver: fire %s", what.c_str());
    g_actions.push_back(Action{1, ev.leaf, ev.inst, ev.kind, ctx});
    ev.fire(ev.op, ev.kind);
    bool ok = m.fire(ev.leaf, ev.inst, ev.kind, ctx);
    after_step();
    if (g_compare && !g_diverged && !ok) { g_diverged = true; SR_FAIL("C05", "pending_mismatch", "%s was in flight in the implementation but not in the model [%s]", what.c_str(), sd.text); }
    compare_step(sd, rs, m, what.c_str());
  }
  ctl.out.steps = steps;
  if (w.root_signals == 0 && running_leaves() > 0 && (!g_compare || !m.done)) {
    // a leaf that never completes (only reacts to stop, but sits behind unstoppable()): tearing the
    // operation down is the harness's decision, not a library defect
    w.abandoned = true;
    vk::ctx().label("abandoned(never-completing leaf)");
  }
  if (plan.stop_after_completion && w.root_signals > 0 && !w.root_stop_requested) {
    SR_TR("driver: request_stop() after the receiver was completed");
    w.root_stop_requested = true;
    if (rs.use_inplace) { if (rs.inplace) rs.inplace->request_stop(); }
    else { bool c = rs.hstop.root_completed; rs.hstop.root_completed = false; rs.hstop.request_stop(); rs.hstop.root_completed = c; }
    after_step();
  }
  // ---- anonymous fault (a value copy/move, a connect() or an allocation threw somewhere inside the implementation): the lockstep
  // comparison is off; instead the finished run must equal the documented behaviour for *some* place at which "the failure is
  // reported through set_error": one node's start failing, or one node's value completion turning into the injected error
  if (!g_compare && plan.anon_fault >= 0 && !w.abandoned && !vk::ctx().failed && steps <= 600) {
    auto real_sum = [&] {
      std::ostringstream ss;
      ss << "done=" << (w.root_signals > 0) << " chan=" << w.root.chan << " pay=" << (w.root.chan == sr::VALUE ? w.root.payload : 0) << " err=" << (w.root.chan == sr::ERROR ? w.root.err : 0) << " |";
      for (size_t l = 0; l < w.runs.size(); ++l) for (size_t i = 0; i < w.runs[l].size(); ++i) { auto& r = w.runs[l][i]; if (r.started) ss << " L" << l << "#" << i << ":" << r.completed << r.stop_seen << r.chan; }
      ss << " | calls"; std::map<int, int> sorted(w.calls.begin(), w.calls.end()); for (auto& kv : sorted) if (kv.second) ss << " " << kv.first << ":" << kv.second;
      return ss.str();
    };
    auto model_sum = [&](Model& mm) {
      std::ostringstream ss;
      ss << "done=" << mm.done << " chan=" << (mm.done ? mm.result.chan : (int)sr::NONE) << " pay=" << (mm.done && mm.result.chan == sr::VALUE ? mm.result.payload : 0) << " err=" << (mm.done && mm.result.chan == sr::ERROR ? mm.result.err : 0) << " |";
      for (auto& kv : mm.runs) { auto& r = kv.second; if (r.started) ss << " L" << kv.first.first << "#" << kv.first.second << ":" << r.completed << r.stop_seen << r.chan; }
      ss << " | calls"; for (auto& kv : mm.calls) if (kv.second) ss << " " << kv.first << ":" << kv.second;
      return ss.str();
    };
    const std::string want = real_sum();
    const int want_ctx = w.root_signals > 0 ? w.root_ctx : -1;
    bool ctx_only_mismatch = false; int ctx_expected = -1; int plain_ctx = -1; bool first_candidate = true;
    auto try_candidate = [&](int nid, int mode, int occ, std::string* got) {
      Model mm(sd, plan.spec);
      mm.node_arg = plan.node_arg; mm.cand_nid = nid; mm.cand_mode = mode; mm.cand_occ = occ;
      if (plan.stop_before_start) mm.request_stop();
      mm.start();
      for (auto& a : g_actions) {
        if (a.type == 0) mm.request_stop();
        else if (!mm.fire(a.leaf, a.inst, a.kind, a.ctx)) return false;
      }
      if (!mm.pending().empty() && w.pending.empty()) return false;
      if (mm.unspecified) return true;   // the documents leave this situation open (when_any under a receiver stop)
      std::string ms = model_sum(mm);
      if (first_candidate) { first_candidate = false; plain_ctx = mm.done ? mm.result_ctx : -1; }
      if (got) *got = ms;
      if (ms != want) return false;
      // same outcome: the completion context must be the documented one too (C11: via / typed_via / on deliver on their scheduler on every path)
      if (mm.done && mm.result_ctx != want_ctx) { ctx_only_mismatch = true; ctx_expected = mm.result_ctx; return false; }
      return true;
    };
    bool ok = false; std::string plain;
    if (!w.fault_fired) ok = try_candidate(-1, 0, 0, &plain);
    else {
      ok = try_candidate(-1, 0, 0, &plain);   // a fault without observable consequence (e.g. in a loser of when_any)
      // which places can be the site of this throw: a value copy/move -> the value completion of a node that produces a value, or
      // the start of a subtree that holds values in its senders (just, the bound-value leaves, let_value_with); a leaf connect() ->
      // the start of a subtree containing a harness leaf; an allocation -> the start of a subtree containing allocate()
      const std::string site = w.fault_site;
      const bool f_value = site.rfind("Tracked", 0) == 0, f_connect = site == "leaf connect", f_alloc = site == "allocation";
      std::vector<char> holds_value((size_t)sd.nnodes, 0), holds_leaf((size_t)sd.nnodes, 0), holds_alloc((size_t)sd.nnodes, 0);
      std::function<void(int)> mark = [&](int idx) {
        const NodeDesc& n = sd.nodes[idx];
        int k = n.kind;
        if (k == K_JUST || k == K_REF || k == K_ERRREF || k == K_LVW || k == K_JUST_FROM) holds_value[(size_t)idx] = 1;
        if (k == K_LEAF || k == K_LEAFV || k == K_LEAF_AI || k == K_LEAF_ND) holds_leaf[(size_t)idx] = 1;
        if (k == K_ALLOCATE) holds_alloc[(size_t)idx] = 1;
        for (int c2 = 0; c2 < n.nchild; ++c2) { mark(n.child[c2]); holds_value[(size_t)idx] |= holds_value[(size_t)n.child[c2]]; holds_leaf[(size_t)idx] |= holds_leaf[(size_t)n.child[c2]]; holds_alloc[(size_t)idx] |= holds_alloc[(size_t)n.child[c2]]; }
      };
      mark(sd.root);
      for (int i = 0; i < sd.nnodes && !ok; ++i) for (int mode = 0; mode < 3 && !ok; ++mode) {
        bool allowed = mode == 0 ? (f_value && sd.nodes[i].vt == 'V')
                                 : ((f_value && holds_value[(size_t)i]) || (f_connect && holds_leaf[(size_t)i]) || (f_alloc && holds_alloc[(size_t)i]));
        if (!allowed) continue;
        for (int occ = 0; occ < 4 && !ok; ++occ) ok = try_candidate(sd.nodes[i].nid, mode, occ, nullptr);
      }
    }
    vk::ctx().label(w.fault_fired ? "anonymous-fault-explained-by-model" : "anonymous-fault-not-reached(plain model)");
    // via / typed_via at the root: whatever happens below, the result is delivered by the schedule() operation, i.e. on the scheduler's context
    const NodeDesc& rootn = sd.nodes[sd.root];
    const bool root_hops = rootn.kind == K_VIA || rootn.kind == K_TYPED_VIA;
    if (!ok && !ctx_only_mismatch && vk::ctx().prop == "C11" && root_hops && w.root_signals > 0 && want_ctx != rootn.a)
      SR_FAIL("C11", "fault_completion_context", "an injected throw (%s, throw point #%ld) fired below %s(..., ctx%d); the result [%s] was delivered on ctx%d, not on the scheduler's context [%s]", w.fault_site, plan.anon_fault, kind_name(rootn.kind), rootn.a, want.c_str(), want_ctx, sd.text);
    else if (!ok && ctx_only_mismatch)
      SR_FAIL("C11", "fault_completion_context", "an injected throw (%s, throw point #%ld) fired; the result [%s] is the documented one but it was delivered on ctx%d, the documented behaviour delivers it on ctx%d [%s]", w.fault_site, plan.anon_fault, want.c_str(), want_ctx, ctx_expected, sd.text);
    else if (!ok) SR_FAIL("C05", "fault_outcome_unexplained", "an injected throw (%s, throw point #%ld) %s; the run ended as [%s]; no single place at which that failure is reported through set_error explains it (without any fault the documented behaviour is [%s]) [%s]",
                     w.fault_site, plan.anon_fault, w.fault_fired ? "fired" : "was planned but not reached", want.c_str(), plain.c_str(), sd.text);
  }
  // snapshot of the model for the end-of-run oracles
  ctl.out.model_done = m.done; ctl.out.model_result = m.result; ctl.out.model_ctx = m.result_ctx;
  ctl.out.allocate_started.clear(); for (auto& kv : m.allocate_started) ctl.out.allocate_started[kv.first] = kv.second;
  if (g_compare && !g_diverged) {
    // function invocation counts: "run their function exactly when the predecessor completes on the matching channel"
    for (int i = 0; i < sd.nnodes; ++i) {
      int nid = sd.nodes[i].nid;
      int rc = w.calls.count(nid) ? w.calls[nid] : 0, mc = m.calls.count(nid) ? m.calls[nid] : 0;
      if (rc != mc) { SR_FAIL("C05", "call_count_mismatch", "the callable of node %d (%s) was invoked %d time(s), the documented behaviour gives %d [%s]", nid, kind_name(sd.nodes[i].kind), rc, mc, sd.text); break; }
    }
    // context / query observations of every leaf run (C11 / C12)
    for (int l = 0; l < sd.nleaves && (size_t)l < w.runs.size(); ++l)
      for (size_t i = 0; i < w.runs[(size_t)l].size(); ++i) {
        auto& r = w.runs[(size_t)l][i]; auto& mr = m.runs[{l, (int)i}];
        if (!r.started) continue;
        if (r.start_ctx != mr.start_ctx) SR_FAIL("C11", "start_context", "leaf%d#%zu was started on ctx%d, expected ctx%d [%s]", l, i, r.start_ctx, mr.start_ctx, sd.text);
        if (r.tok_stop_possible != mr.tok_possible) SR_FAIL("C12", "stop_token_query", "leaf%d#%zu sees a stop token with stop_possible()=%d, expected %d [%s]", l, i, (int)r.tok_stop_possible, (int)mr.tok_possible, sd.text);
        if (r.q_sched != mr.sched) SR_FAIL("C12", "scheduler_query", "leaf%d#%zu sees get_scheduler() = ctx%ld, expected ctx%d [%s]", l, i, r.q_sched, mr.sched, sd.text);
        if (r.q_tag != mr.tag) SR_FAIL("C12", "custom_query", "leaf%d#%zu sees the custom receiver query = %ld, expected %ld [%s]", l, i, r.q_tag, mr.tag, sd.text);
        if (r.q_alloc != mr.alloc) SR_FAIL("C12", "allocator_query", "leaf%d#%zu sees get_allocator() = #%ld, expected #%ld [%s]", l, i, r.q_alloc, mr.alloc, sd.text);
      }
  }
  for (auto& v : w.runs) for (auto& r : v) { if (r.started) ctl.out.leaves_started++; if (r.completed && r.chan != sr::VALUE) ctl.out.nonvalue_leaf = true; }
  for (auto& kv : w.calls) { int k = -1; for (int i = 0; i < sd.nnodes; ++i) if (sd.nodes[i].nid == kv.first) k = sd.nodes[i].kind; if (k == K_LET_VALUE || k == K_LET_ERROR || k == K_LET_DONE || k == K_RETRY_WHEN || k == K_REPEAT) ctl.out.storage_switches += kv.second; }
  for (int i = 0; i < sd.nnodes; ++i) { int k = sd.nodes[i].kind; if (k == K_FINALLY || k == K_VIA || k == K_SEQUENCE || k == K_ON || k == K_TYPED_VIA) ctl.out.storage_switches++; }
  g_model = nullptr;
}

void end_run(const ShapeDesc& sd, RunCtl& ctl, RunState& rs) {
  sr::World& w = rs.w;
  Outcome& o = ctl.out;
  o.signals = w.root_signals; o.result = w.root; o.result_ctx = w.root_ctx; o.fault_fired = w.fault_fired; o.throw_points = w.throw_counter;
  // ---- C01: exactly once / never without start
  if (!o.started && w.root_signals != 0) SR_FAIL("C01", "completion_without_start", "the receiver was completed although the operation was never started [%s]", sd.text);
  if (!g_compare && o.started && !w.abandoned && w.root_signals != 1) SR_FAIL("C01", "completion_count", "the operation was started and all of its leaves completed, but it delivered %d completion signals [%s]", w.root_signals, sd.text);
  // ---- C05: result equals the documented function of the inputs
  if (g_compare && !g_diverged && o.started && o.model_done && w.root_signals >= 1) {
    const sr::Result &a = w.root, &b = o.model_result;
    if (a.chan != b.chan) SR_FAIL("C05", "result_channel", "completed with %s, the documented behaviour gives %s [%s]", sr::chan_name(a.chan), sr::chan_name(b.chan), sd.text);
    else if (a.chan == sr::VALUE && a.payload != b.payload) SR_FAIL("C05", "result_value", "completed with value %llx, the documented behaviour gives %llx [%s]", (unsigned long long)a.payload, (unsigned long long)b.payload, sd.text);
    else if (a.chan == sr::ERROR && a.err != b.err) SR_FAIL("C05", "result_error", "completed with error %ld, the documented behaviour gives %ld [%s]", a.err, b.err, sd.text);
    if (o.result_ctx != o.model_ctx) SR_FAIL("C11", "completion_context", "result delivered on ctx%d, expected ctx%d [%s]", o.result_ctx, o.model_ctx, sd.text);
  }
  // ---- C11: static sender traits are sound
  if (o.started && w.root_signals >= 1) {
    int bk = ctl.trait_blocking;  // 0 always_inline, 1 always, 2 maybe, 3 never
    if ((bk == 0 || bk == 1) && !w.root_completed_in_start)
      SR_FAIL("C11", "blocking_trait", "sender_traits<>::blocking is %s but the operation completed only after start() had returned [%s]", bk == 0 ? "always_inline" : "always", sd.text);
    if (bk == 0 && w.root_ctx != 0)
      SR_FAIL("C11", "blocking_trait_thread", "sender_traits<>::blocking is always_inline but the completion happened on another context (ctx%d) [%s]", w.root_ctx, sd.text);
    if (!ctl.trait_sends_done && w.root.chan == sr::DONE)
      SR_FAIL("C11", "sends_done_trait", "sender_traits<>::sends_done is false but the operation completed with done [%s]", sd.text);
    if (ctl.trait_affine && w.root_ctx != 0 && !w.root_completed_in_start)
      SR_FAIL("C11", "affine_trait", "sender_traits<>::is_always_scheduler_affine is true, the operation was started on ctx0 but completed on ctx%d [%s]", w.root_ctx, sd.text);
    if (bk == 0 || bk == 1) vk::ctx().label("trait:blocking-always");
    if (!ctl.trait_sends_done) vk::ctx().label("trait:never-done");
    if (ctl.trait_affine) vk::ctx().label("trait:affine");
  }
  // ---- C20 (continuation-visitation builds): async_trace from a leaf's receiver reports the chain up to the outermost receiver
  for (size_t l = 0; l < w.runs.size(); ++l) for (size_t i = 0; i < w.runs[l].size(); ++i) {
    auto& r = w.runs[l][i];
    if (r.trace_root < 0) continue;
    // kinds on the path from this leaf to the root of the expression
    std::vector<int> path; {
      std::function<bool(int)> find = [&](int idx) { const NodeDesc& n = sd.nodes[idx]; if ((n.kind == K_LEAF || n.kind == K_LEAFV || n.kind == K_LEAF_AI || n.kind == K_LEAF_ND) && n.a == (int)l) return true; for (int c2 = 0; c2 < n.nchild; ++c2) if (find(n.child[c2])) { path.push_back(n.kind); return true; } return false; };
      find(sd.root);
    }
    std::set<int> ks(path.begin(), path.end()); std::string kl; for (int k : ks) { kl += kind_name(k); kl += ','; }
    if (vk::ctx().argi("trace-survey", 0)) vk::ctx().label(std::string(r.trace_root ? "trace-ok:" : "trace-broken:") + kl);
    else if (!r.trace_root) {
      bool excused = false; for (int k : ks) if (trace_blind_kind(k) && known("async_trace_chain_stops")) excused = true;
      if (!excused) SR_FAIL("C20", "async_trace_chain_broken", "async_trace() taken from the receiver of leaf%zu#%zu (%d entries) does not reach the outermost receiver although every adaptor on its path (%s) forwards continuation visitation [%s]", l, i, r.trace_len, kl.c_str(), sd.text);
      else vk::ctx().label("async_trace-excused(known finding)");
    } else vk::ctx().label("async_trace-reaches-root");
  }
  // ---- C02: everything destroyed exactly once, nothing leaked
  if (!w.pending.empty()) SR_FAIL("C02", "pending_after_teardown", "%zu operation(s) still registered as in flight after the operation state was destroyed [%s]", w.pending.size(), sd.text);
  if (w.abandoned) { /* teardown of a running operation: lifetime oracles do not apply */ }
  else if (!w.live.empty()) SR_FAIL("C02", "tracked_leak", "%zu value object(s) were never destroyed (constructed %ld copied %ld moved %ld destroyed %ld) [%s]", w.live.size(), w.tracked_ctor, w.tracked_copy, w.tracked_move, w.tracked_dtor, sd.text);
  if (!w.abandoned && w.connects != w.op_destroys) SR_FAIL("C02", "child_op_leak", "%ld child operation states were created but %ld destroyed [%s]", w.connects, w.op_destroys, sd.text);
  if (rs.ledger.allocs != rs.ledger.deallocs) SR_FAIL("C02", "allocator_imbalance", "allocator: %ld allocations, %ld deallocations [%s]", rs.ledger.allocs, rs.ledger.deallocs, sd.text);
  for (auto& l : rs.ledger_n) if (l.allocs != l.deallocs) SR_FAIL("C02", "allocator_imbalance", "allocator #%ld: %ld allocations, %ld deallocations [%s]", l.id, l.allocs, l.deallocs, sd.text);
  { // ---- C12: allocate() takes its memory from exactly the allocator visible at that point
    // statically: which allocator ids are visible at some allocate() node (with_allocator replaces it, any_sender_of hides it)
    std::set<long> visible;
    std::function<void(int, long)> walk = [&](int idx, long cur) {
      const NodeDesc& n = sd.nodes[idx];
      if (n.kind == K_ALLOCATE) visible.insert(cur);
      long below = n.kind == K_WITH_ALLOC ? n.a : n.kind == K_ANY ? -1 : cur;
      for (int i = 0; i < n.nchild; ++i) walk(n.child[i], below);
    };
    walk(sd.root, 1);
    for (long id = 1; id <= 3; ++id) {
      const sr::AllocLedger& l = id == 1 ? rs.ledger : rs.ledger_n[id - 2];
      if (!visible.count(id) && l.allocs != 0) SR_FAIL("C12", "allocate_wrong_allocator", "allocator #%ld served %ld allocation(s) although no allocate() in the expression has it as its receiver's allocator [%s]", id, l.allocs, sd.text);
      auto it = ctl.out.allocate_started.find(id);
      long want = it == ctl.out.allocate_started.end() ? 0 : it->second;
      if (g_compare && !g_diverged && !o.escaped && l.allocs < want) SR_FAIL("C12", "allocate_wrong_allocator", "%ld allocate() operation(s) ran with allocator #%ld visible through their receiver, but that allocator served only %ld allocation(s) [%s]", want, id, l.allocs, sd.text);
    }
  }
  // ---- C04: no registration left on the receiver's stop source once the operation is gone
  if (!rs.use_inplace && (!rs.hstop.cbs.empty() || !rs.hstop.executing.empty())) SR_FAIL("C04", "dangling_stop_callback", "%zu stop callback(s) are still registered on the receiver's stop source after the operation state was destroyed [%s]", rs.hstop.cbs.size(), sd.text);
  if (rs.inplace) { delete rs.inplace; rs.inplace = nullptr; }   // asserts "no dangling callbacks" inside libunifex
  // canonical summary for differential runs
  std::ostringstream ss;
  ss << "sig=" << w.root_signals << " chan=" << w.root.chan << " pay=" << w.root.payload << " err=" << w.root.err << " ctx=" << w.root_ctx << " esc=" << o.escaped << " |";
  for (size_t l = 0; l < w.runs.size(); ++l) for (size_t i = 0; i < w.runs[l].size(); ++i) { auto& r = w.runs[l][i]; ss << " L" << l << "#" << i << ":" << r.started << r.completed << r.stop_seen << r.chan; }
  ss << " | calls";
  std::map<int, int> sorted(w.calls.begin(), w.calls.end());
  for (auto& kv : sorted) ss << " " << kv.first << ":" << kv.second;
  o.summary = ss.str();
  { // order of the observable events: ranks of the harness clock values (the clock itself also ticks on non-observable bookkeeping)
    std::vector<std::pair<long, std::string>> evs;
    for (size_t l = 0; l < w.runs.size(); ++l) for (size_t i = 0; i < w.runs[l].size(); ++i) { auto& r = w.runs[l][i];
      if (r.t_start >= 0) evs.push_back({r.t_start, vk::sfmt("s%zu.%zu@%d", l, i, r.start_ctx)});
      if (r.t_complete >= 0) evs.push_back({r.t_complete, vk::sfmt("c%zu.%zu", l, i)}); }
    if (w.t_root >= 0) evs.push_back({w.t_root, "ROOT"});
    std::sort(evs.begin(), evs.end());
    std::string ord; for (auto& e : evs) { ord += e.second; ord += ' '; }
    o.order = ord;
  }
  sr::world_ptr() = nullptr;
}

}  // namespace ef

// KNOWN FINDING value_copy_throw_terminates, excluded by detection: an injected throw from a value copy/move that reaches one of the
// unconditionally-noexcept set_value paths ends in std::terminate; when that happens with the signature in --known the case is
// counted as excluded and the shard continues in a fresh process (any other std::terminate is a crash like before)
void vk_harness_init() {
  std::set_terminate([] {
    if (sr::world_ptr() && sr::W().fault_fired && std::strncmp(sr::W().fault_site, "Tracked", 7) == 0 && ef::known("value_copy_throw_terminates"))
      vk::excluded_exit("known:value_copy_throw_terminates(std::terminate after an injected value copy/move throw)");
    fprintf(stderr, "terminate called (harness handler)\n");
    std::abort();
  });
}

extern "C" const char* vk_harness_name() { return "exprfuzz"; }
const char* vk_nontrivial_rule() {
  return "case = (shape from the generated static catalogue, per-leaf outcome lists {value,error(exception_ptr|Err),done} x {inline,deferred,on-stop-only} x completion context, "
         "reaction to stop {ignore, done inside the stop callback, deferred done}, stop requests {before start, from inside a leaf's start(), between any two events, after completion}, "
         "order of deferred completions chosen event by event, modelled fault (k-th call of a callable throws) or anonymous fault (k-th copy/move/connect/allocation throws), "
         "storage poison byte, receiver destroys the operation inside its completion or not, never-started); oracle = lockstep reference model + history invariants. "
         "non-trivial: C01 >=2 leaves started and (a deferred completion or a stop request); C02 an adaptor switched its active child storage or a fault fired; "
         "C04 a stop request arrived while >=1 leaf was running; C05 depth>=2 and a non-value leaf outcome or a throwing callable; C11/C12 a leaf below >=2 adaptors. "
         "distinct = hash of the decoded choice sequence";
}

void vk_run_case(vk::Choice& c) {
  using namespace ef;
  auto& cx = vk::ctx();
  auto& shapes = registry().shapes;
  static bool sorted_once = false;
  if (!sorted_once) { sorted_once = true; std::sort(shapes.begin(), shapes.end(), [](const ShapeDesc* a, const ShapeDesc* b) { return a->id < b->id; }); }
  if (shapes.empty()) { cx.fail("*", "no_shapes", "no shapes registered"); return; }
  // --require-kind=N: only shapes containing a node of that kind (C18 runs the shapes with an any_sender_of node)
  static std::vector<const ShapeDesc*> subset; static bool subset_done = false;
  if (!subset_done) {
    subset_done = true;
    long rk = cx.arg("require-kind") == "any_sender_of" ? (long)K_ANY : -1;
    for (auto* s : shapes) { bool has = rk < 0; for (int i = 0; i < s->nnodes && !has; ++i) if ((long)s->nodes[i].kind == rk) has = true; if (has) subset.push_back(s); }
    if (subset.empty()) subset = shapes;
  }
  const ShapeDesc* chosen = subset[c.upto((uint32_t)subset.size())];
  if (long forced = cx.argi("shape", -1); forced >= 0) {   // regression replays pin the shape by id
    chosen = nullptr;
    for (auto* s : shapes) if (s->id == forced) chosen = s;
    if (!chosen) { cx.discard = true; cx.discard_why = "shape id not in this catalogue"; return; }
  }
  const ShapeDesc& sd = *chosen;
  RunCtl ctl; ctl.c = &c;
  ctl.plan = decode_plan(sd, c);
  cx.desc = vk::sfmt("shape%d cfg%d: %s :: %s", sd.id, sd.cfg, sd.text, ctl.plan.text.c_str());
  cx.tr("CASE %s", cx.desc.c_str());
  // known findings are excluded by construction
  std::string known = "," + cx.arg("known") + ",";
  if (known.find(",sender_for_hijacks_type_erasure_builtins,") != std::string::npos) {
    for (int i = 0; i < sd.nnodes; ++i) if (sd.nodes[i].kind == K_ANY && sd.nodes[sd.nodes[i].child[0]].kind == K_SCHEDULE) { cx.discard = true; cx.discard_why = "known:sender_for_hijacks_type_erasure_builtins"; return; }
  }
  if (known.find(",when_any_done_first,") != std::string::npos) {
    for (int i = 0; i < sd.nnodes; ++i) if (sd.nodes[i].kind == K_WHEN_ANY) { cx.discard = true; cx.discard_why = "known:when_any_done_first"; return; }
  }
  if (ctl.plan.anon_fault >= 0 && cx.argi("legacy", 0) == 0) {   // (--legacy=1: replays recorded before the dry run existed throw at point k as recorded)
    // single-fault injection: a dry run without the fault counts the throwable events N of this case (and is itself checked like
    // any other case); the faulty run repeats the same event choices and throws at event k mod N
    long k = ctl.plan.anon_fault; Plan faulty = ctl.plan;
    ctl.plan.anon_fault = -1;
    bool tr = cx.tracing; cx.tracing = false;
    sd.run(sd, ctl);
    cx.tracing = tr;
    long n = ctl.out.throw_points;
    if (cx.failed) { cx.label("failed-in-fault-dry-run"); cx.tr("(the violation happened in the dry run of this case, i.e. without the injected fault)"); }
    else if (n == 0) { cx.label("no-throw-points"); ctl.plan = faulty; ctl.plan.anon_fault = -1; ctl.replaying_picks = true; ctl.pick_pos = 0; }
    else { ctl.plan = faulty; ctl.plan.anon_fault = k % n; ctl.replaying_picks = true; ctl.pick_pos = 0; cx.label("fault-position-from-dry-run"); cx.desc += vk::sfmt(" [throw point #%ld of the %ld met by the fault-free run]", k % n, n); }
  }
  Plan saved = ctl.plan;
  if (!cx.failed) sd.run(sd, ctl);
  Outcome first = ctl.out;
  bool poison_diff = cx.want("C02") && (cx.prop == "C02" || c.chance(1, 6));
  if (poison_diff && !cx.failed) {
    // differential poison oracle: the observable behaviour must not depend on what the storage contained before construction
    ctl.plan = saved; ctl.plan.poison = (uint8_t)~saved.poison; ctl.replaying_picks = true; ctl.pick_pos = 0;
    bool tr = cx.tracing; cx.tracing = false;
    sd.run(sd, ctl);
    cx.tracing = tr;
    if (!cx.failed && ctl.out.summary != first.summary)
      cx.fail("C02", "poison_differential", "behaviour depends on the previous contents of the operation-state storage: fill %02x -> [%s], fill %02x -> [%s] [%s]", saved.poison, first.summary.c_str(), (uint8_t)~saved.poison, ctl.out.summary.c_str(), sd.text);
    cx.label("poison-differential");
  }
  cx.digest = first.summary + " | order " + first.order;
  // classification
  const Outcome& o = first;
  int depth = 0; { std::function<int(int)> dp = [&](int i) { int m = 0; for (int k = 0; k < sd.nodes[i].nchild; ++k) m = std::max(m, dp(sd.nodes[i].child[k])); return m + 1; }; depth = dp(sd.root); }
  bool nt = false;
  if (cx.prop == "C01") nt = o.leaves_started >= 2 && (o.had_deferred || o.stops_while_running > 0);
  else if (cx.prop == "C02") nt = o.storage_switches > 0 || o.fault_fired;
  else if (cx.prop == "C04") nt = o.stops_while_running > 0;
  else if (cx.prop == "C05") nt = depth >= 2 && (o.nonvalue_leaf || saved.fault_node >= 0);
  else nt = depth >= 3 && o.leaves_started >= 1;
  cx.nontrivial = nt && o.started;
  cx.label(vk::sfmt("shape-depth%d", depth));
  if (o.escaped) cx.label("exception-left-connect");
  if (o.fault_fired) cx.label(saved.fault_node >= 0 ? "callable-fault-fired" : "anonymous-fault-fired");
  if (o.stops_while_running) cx.label("stop-while-running");
  if (saved.stop_before_start) cx.label("stop-before-start");
  if (saved.destroy_on_completion) cx.label("destroy-in-completion");
  if (!o.started) cx.label("never-started");
  if (o.signals) cx.label(std::string("result-") + sr::chan_name(o.result.chan));
  for (int i = 0; i < sd.nnodes; ++i) cx.label(std::string("k:") + kind_name(sd.nodes[i].kind));
}
