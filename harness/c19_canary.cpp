// C19 (canary) — "is the object I am inside of still alive?" arbitration under schedule control.
// A canary lives inside a heap block owned by thread A (standing for an operation state that its completion destroys);
// a watcher lives on thread B's stack (standing for start() still running).  Script: B performs a generated number of
// alive() checks, each holding the guard across a generated number of touches of the block; A destroys the canary and
// frees the block at a generated point; B destroys the watcher at the end (possibly concurrently with ~canary).
// Oracles: while a truthy guard exists the block has not been destroyed (flag + ASan on the touches); alive() is false
// after ~canary() returned; once ~canary() has returned nothing touches the block again (it is freed at once: ASan);
// both destructors return (no deadlock / livelock verdict from the scheduler); the watcher can be destroyed first.
#include "kit/case.hpp"
#include "kit/dk.hpp"

#include <unifex/canary.hpp>

#include <thread>

using namespace unifex;

namespace {
const char* P = "C19";

struct Block { long payload = 0; bool destroyed = false; canary c; };

struct Script { int checks = 0; int touches[4] = {0, 0, 0, 0}; int a_delay = 0; int b_delay = 0; bool watcher_first = false; int b_gap = 0; };

void run_script(const Script& sc, bool check, bool& nontrivial) {
  auto& cx = vk::ctx();
  void* mem = ::operator new(sizeof(Block));
  Block* blk = ::new (mem) Block();
  bool freed = false; long t_canary_dtor_begin = -1, t_canary_dtor_end = -1, t_watcher_dtor_begin = -1, t_watcher_dtor_end = -1;
  int guards_true = 0, guards_false = 0; bool overlap = false;
  // the watcher must exist before the threads split (watch() is called by the owner while it is alive)
  alignas(canary::watcher) unsigned char wbuf[sizeof(canary::watcher)];
  canary::watcher* w = ::new (wbuf) canary::watcher(blk->c.watch());   // guaranteed elision: constructed in place
  std::thread a([&] {
    for (int i = 0; i < sc.a_delay; ++i) detsched::yield_now();
    t_canary_dtor_begin = dk::tick();
    cx.tr("#%ld A: ~canary begins", t_canary_dtor_begin);
    blk->destroyed = true;          // the owner has decided to destroy; ~canary() must block while a guard is held
    blk->c.~canary();
    t_canary_dtor_end = dk::tick();
    cx.tr("#%ld A: ~canary returned; block freed", t_canary_dtor_end);
    freed = true;
    ::operator delete(mem);
  });
  std::thread b([&] {
    for (int i = 0; i < sc.b_delay; ++i) detsched::yield_now();
    for (int k = 0; k < sc.checks; ++k) {
      {
        auto g = w->alive();
        if (g) {
          guards_true++;
          cx.tr("#%ld B: alive() -> true", dk::tick());
          if (t_canary_dtor_end >= 0 && check) cx.fail(P, "alive_after_destruction", "watcher::alive() returned a truthy guard after ~canary() had returned");
          for (int t = 0; t < sc.touches[k & 3]; ++t) {
            if (freed) { if (check) cx.fail(P, "guard_did_not_block_destruction", "the canary's owner finished destroying (and freed) the object while a truthy guard was held"); break; }
            blk->payload++;               // ASan: heap-use-after-free if the block is gone
            detsched::yield_now();
          }
          if (t_canary_dtor_begin >= 0 && t_canary_dtor_end < 0) overlap = true;
        } else {
          guards_false++;
          cx.tr("#%ld B: alive() -> false", dk::tick());
          if (t_canary_dtor_begin < 0 && check) cx.fail(P, "dead_before_destruction", "watcher::alive() returned false although ~canary() has not started");
        }
      }
      for (int i = 0; i < sc.b_gap; ++i) detsched::yield_now();
    }
    t_watcher_dtor_begin = dk::tick();
    cx.tr("#%ld B: ~watcher begins", t_watcher_dtor_begin);
    w->~watcher();
    t_watcher_dtor_end = dk::tick();
    cx.tr("#%ld B: ~watcher returned", t_watcher_dtor_end);
  });
  a.join(); b.join();
  if (!check) return;
  if (t_canary_dtor_end < 0 || t_watcher_dtor_end < 0) cx.fail(P, "destructor_stuck", "a destructor did not return");
  bool concurrent = t_canary_dtor_begin < t_watcher_dtor_end && t_watcher_dtor_begin < t_canary_dtor_end;
  nontrivial = concurrent || overlap || (guards_true > 0 && guards_false > 0);
  if (concurrent) cx.label("destructors-overlap");
  if (overlap) cx.label("~canary-started-while-guard-held");
  if (guards_false) cx.label("alive()-false-seen");
}

}  // namespace

extern "C" const char* vk_harness_name() { return "c19_canary"; }
const char* vk_nontrivial_rule() {
  return "script: owner thread destroys the canary (and frees its block) after a generated delay; watcher thread performs 0..1 alive() check holding the guard over 0..3 touches of the block, then destroys the watcher; schedule from the same bytes (detsched). "
         "non-trivial = the two destructors overlapped, or ~canary started while a guard was held, or both a true and a false alive() were seen";
}

void vk_run_case(vk::Choice& c) {
  auto& cx = vk::ctx();
  Script sc;
  sc.checks = (int)c.upto(2);   // alive() is used once per watcher by every caller (the guard's release leaves the watcher in its final state) for (int i = 0; i < 4; ++i) sc.touches[i] = (int)c.upto(4);
  sc.a_delay = (int)c.upto(6); sc.b_delay = (int)c.upto(4); sc.b_gap = (int)c.upto(3);
  cx.desc = vk::sfmt("checks=%d touches={%d,%d,%d,%d} a_delay=%d b_delay=%d b_gap=%d", sc.checks, sc.touches[0], sc.touches[1], sc.touches[2], sc.touches[3], sc.a_delay, sc.b_delay, sc.b_gap);
  bool nt = false;
  detsched::Options o; o.max_steps = 20000;
  auto res = detsched::run(c, o, [&] { bool dry = detsched::in_dry_run(); bool ig = false; run_script(sc, !dry, dry ? ig : nt); });
  cx.desc += " | " + res.schedule;
  cx.nontrivial = nt && !res.inconclusive;
  if (res.inconclusive) cx.label("inconclusive(step budget)");
}
