// C14 (io_epoll_context) — every operation completes once with the true result; no stale state.  Schedule-controlled.
// Scenario: a loop thread inside run(stop_token); a writer thread pushes a generated list of chunks (1 byte .. more than
// the pipe capacity) through async_write_some; a reader thread drains the pipe with async_read_some into buffers of
// generated sizes, each read with its own stop source; a stopper thread cancels reads at generated points (before start,
// while parked, any time); 0-2 producer threads schedule() work remotely, 0-4 timers with close due times run concurrently and are stopped remotely around their expiry; the n-th readv/writev of the case
// may fail with a generated errno or transfer half of what was asked.  Operation states live in exact-size heap blocks
// that are freed as soon as the operation completes (ASan sees a late touch by the context).
// Oracles: the bytes delivered by successful reads, concatenated, equal the bytes accepted by successful writes, in order;
// every operation completes exactly once; value = bytes actually transferred (<= requested, > 0 for a non-empty buffer
// while the peer is open); done only for an operation whose stop source fired; an error carries the injected OS error and
// nothing else ever errors; every completion runs on the thread inside run(); no scheduled item is lost; run() returns
// after stop; no deadlock / livelock verdict.
#include "kit/case.hpp"
#include "kit/dk.hpp"

#include <unifex/config.hpp>
#include <unifex/linux/io_epoll_context.hpp>
#include <unifex/scheduler_concepts.hpp>
#include <unifex/io_concepts.hpp>
#include <unifex/span.hpp>

#include <memory>
#include <system_error>
#include <thread>

using namespace unifex;
using namespace unifex::linuxos;

namespace {
const char* P = "C14";

struct OpRec {
  int kind = 0;        // 0 schedule, 1 read, 2 write, 3 timer
  int signals = 0; int chan = dk::NONE; long value = -1; int err = 0; int thread = -1; long t_done = -1, t_stop = -1;
  size_t asked = 0;
  std::unique_ptr<inplace_stop_source> src;
};
struct World {
  std::vector<std::unique_ptr<OpRec>> ops;
  int loop_thread = -1;
  OpRec& add(int kind) { ops.emplace_back(new OpRec()); ops.back()->kind = kind; ops.back()->src.reset(new inplace_stop_source()); return *ops.back(); }
};
World* g_w;

struct Recv {
  OpRec* o;
  void fin(int chan, long v, int err) noexcept {
    o->signals++;
    if (o->signals > 1) { vk::ctx().fail(P, "double_completion", "an io_epoll_context operation (kind %d) completed %d times", o->kind, o->signals); return; }
    o->chan = chan; o->value = v; o->err = err; o->thread = detsched::current_thread(); o->t_done = dk::tick();
    vk::ctx().tr("#%ld op(kind %d) completes with %s %ld", o->t_done, o->kind, dk::chan_name(chan), chan == dk::VALUE ? v : (long)err);
    detsched::step();
  }
  void set_value() && noexcept { fin(dk::VALUE, 0, 0); }
  void set_value(ssize_t n) && noexcept { fin(dk::VALUE, (long)n, 0); }
  void set_error(std::error_code ec) && noexcept { fin(dk::ERROR, 0, ec.value()); }
  void set_error(std::exception_ptr) && noexcept { fin(dk::ERROR, 0, -1); }
  void set_done() && noexcept { fin(dk::DONE, 0, 0); }
  friend inplace_stop_token tag_invoke(tag_t<get_stop_token>, const Recv& r) noexcept { return r.o->src->get_token(); }
};

unsigned char pat(size_t i) { return (unsigned char)((i * 7 + 3) & 0xff); }

struct Script {
  std::vector<int> chunks;        // write sizes
  std::vector<int> bufs;          // read buffer sizes (cycled)
  std::vector<std::pair<int, int>> stops;   // (read index, delay in yields; -1 = before start)
  int producers = 0, per_producer = 0; int timers = 0; int timer_us[4] = {0, 0, 0, 0}; std::vector<std::pair<int, int>> timer_stops;
  long fault_which = -1, fault_nth = -1, fault_err = 0;
};

template <class S> struct Box {
  using Op = connect_result_t<S, Recv>;
  dk::OpBox<Op> b;
  void go(S&& s, OpRec* o) { b.emplace(std::move(s), Recv{o}); unifex::start(*b.op); }
};

void run_script(const Script& sc, bool check, bool& nontrivial) {
  auto& cx = vk::ctx();
  World W; g_w = &W;
  detsched::set_io_fault(0, -1, 0); detsched::set_io_fault(1, -1, 0);
  if (sc.fault_which >= 0) detsched::set_io_fault((int)sc.fault_which, sc.fault_nth, sc.fault_err);
  size_t total_to_write = 0; for (int c : sc.chunks) total_to_write += (size_t)c;
  std::vector<unsigned char> out(total_to_write); for (size_t i = 0; i < total_to_write; ++i) out[i] = pat(i);
  std::vector<unsigned char> in;           // bytes delivered by successful reads
  size_t written = 0; bool writer_done = false, reader_done = false; int write_errors = 0, read_errors = 0, reads_cancelled = 0, reads_parked_cancel = 0, writes_parked = 0;
  OpRec* outstanding_read = nullptr; int read_index = 0;
  {
    io_epoll_context ctx;
    inplace_stop_source loop_stop;
    std::thread loop([&] { W.loop_thread = detsched::current_thread(); ctx.run(loop_stop.get_token()); cx.tr("#%ld run() returned", dk::tick()); });
    auto sched = ctx.get_scheduler();
    auto pipe_ends = open_pipe(sched); auto& rd = pipe_ends.first; auto& wr = pipe_ends.second;

    std::thread writer([&] {
      for (size_t ci = 0; ci < sc.chunks.size(); ++ci) {
        size_t off = 0, n = (size_t)sc.chunks[ci]; int guard = 0;
        while (off < n && guard++ < 64) {
          OpRec& o = W.add(2); o.asked = n - off;
          using S = decltype(async_write_some(wr, as_bytes(span<const unsigned char>{out.data(), 1})));
          Box<S> box;
          cx.tr("#%ld writer: async_write_some(%zu bytes at %zu)", dk::tick(), n - off, written);
          box.go(async_write_some(wr, as_bytes(span<const unsigned char>{out.data() + written, n - off})), &o);
          dk::wait_for([&] { return o.signals > 0; });
          box.b.reset();
          if (o.chan == dk::VALUE) { if ((size_t)o.value > o.asked || o.value <= 0) { if (check) cx.fail(P, "write_count", "async_write_some of %zu bytes completed with %ld", o.asked, o.value); off = n; } else { off += (size_t)o.value; written += (size_t)o.value; } }
          else { write_errors++; off = n; ci = sc.chunks.size(); }      // an error (injected) ends the writer
        }
      }
      writer_done = true;
      cx.tr("#%ld writer finished (%zu bytes accepted)", dk::tick(), written);
      // the reader may be parked in a read that can never be satisfied: cancel it once everything written has been read
      while (!reader_done) {
        if (outstanding_read && in.size() == written && outstanding_read->t_stop < 0) { outstanding_read->t_stop = dk::tick(); cx.tr("#%ld writer: cancels the reader's last read", outstanding_read->t_stop); outstanding_read->src->request_stop(); }
        detsched::yield_now();
      }
    });
    std::thread reader([&] {
      std::vector<unsigned char> buf;
      for (int guard = 0; guard < 400; ++guard) {
        if (writer_done && in.size() == written) break;
        size_t n = (size_t)sc.bufs[(size_t)read_index % sc.bufs.size()];
        buf.assign(n, 0xEE);
        OpRec& o = W.add(1); o.asked = n;
        int my_index = read_index++;
        for (auto& st : sc.stops) if (st.first == my_index && st.second < 0) { o.t_stop = dk::tick(); o.src->request_stop(); }
        using S = decltype(async_read_some(rd, as_writable_bytes(span<unsigned char>{buf.data(), 1})));
        Box<S> box;
        cx.tr("#%ld reader: async_read_some(%zu bytes)%s", dk::tick(), n, o.t_stop >= 0 ? " [stop already requested]" : "");
        outstanding_read = &o;
        box.go(async_read_some(rd, as_writable_bytes(span<unsigned char>{buf.data(), n})), &o);
        dk::wait_for([&] { return o.signals > 0; });
        outstanding_read = nullptr;
        box.b.reset();
        if (o.chan == dk::VALUE) {
          if ((size_t)o.value > n || o.value < 0) { if (check) cx.fail(P, "read_count", "async_read_some into %zu bytes completed with %ld", n, o.value); break; }
          if (o.value == 0 && check) cx.fail(P, "read_zero", "async_read_some completed with 0 bytes while the write end is open");
          in.insert(in.end(), buf.begin(), buf.begin() + o.value);
          for (size_t i = (size_t)o.value; i < n; ++i) if (buf[i] != 0xEE) { if (check) cx.fail(P, "buffer_overrun", "async_read_some reported %ld bytes but wrote beyond them", o.value); break; }
        } else if (o.chan == dk::DONE) {
          reads_cancelled++;
          for (size_t i = 0; i < n; ++i) if (buf[i] != 0xEE) { if (check) cx.fail(P, "cancelled_read_wrote_buffer", "a read that completed with done had written into its buffer (data lost)"); break; }
        } else { read_errors++; }
      }
      reader_done = true;
      cx.tr("#%ld reader finished (%zu bytes)", dk::tick(), in.size());
    });
    std::thread stopper;
    if (!sc.stops.empty()) stopper = std::thread([&] {
      for (auto& st : sc.stops) {
        if (st.second < 0) continue;
        for (int k = 0; k < st.second; ++k) detsched::yield_now();
        OpRec* o = outstanding_read;
        if (o && o->t_stop < 0 && o->signals == 0) { o->t_stop = dk::tick(); reads_parked_cancel++; cx.tr("#%ld stopper: request_stop on the outstanding read", o->t_stop); o->src->request_stop(); }
      }
    });
    std::vector<std::thread> producers;
    std::vector<OpRec*> sched_ops;
    for (int p = 0; p < sc.producers; ++p) producers.emplace_back([&, p] {
      using S = decltype(schedule(sched));
      std::vector<std::unique_ptr<Box<S>>> boxes; std::vector<OpRec*> mine;
      for (int k = 0; k < sc.per_producer; ++k) { OpRec& o = W.add(0); mine.push_back(&o); boxes.emplace_back(new Box<S>()); boxes.back()->go(schedule(sched), &o); }
      for (auto* o : mine) dk::wait_for([&] { return o->signals > 0; });
      boxes.clear();
      (void)p;
    });
    std::thread timers;
    if (sc.timers > 0) timers = std::thread([&] {
      // a group of timers with close due times runs concurrently; some are stopped from this (remote) thread around their expiry
      auto t0 = now(sched);
      using S = decltype(schedule_at(sched, t0));
      std::vector<std::unique_ptr<Box<S>>> boxes; std::vector<OpRec*> mine; std::vector<decltype(t0)> due;
      for (int k = 0; k < sc.timers; ++k) {
        OpRec& o = W.add(3); mine.push_back(&o);
        due.push_back(t0 + std::chrono::microseconds(sc.timer_us[k]));
        boxes.emplace_back(new Box<S>()); boxes.back()->go(schedule_at(sched, due.back()), &o);
      }
      for (auto& st : sc.timer_stops) {
        for (int y = 0; y < st.second; ++y) detsched::yield_now();
        OpRec* o = mine[(size_t)st.first % mine.size()];
        if (o->t_stop < 0) { o->t_stop = dk::tick(); cx.tr("#%ld timers: request_stop on timer %d", o->t_stop, st.first % (int)mine.size()); o->src->request_stop(); }
      }
      for (size_t k = 0; k < mine.size(); ++k) {
        dk::wait_for([&] { return mine[k]->signals > 0; });
        if (check && mine[k]->chan == dk::VALUE && now(sched) < due[k]) cx.fail(P, "timer_early", "schedule_at completed before its due time");
      }
      boxes.clear();
    });
    writer.join(); reader.join();
    if (stopper.joinable()) stopper.join();
    for (auto& t : producers) t.join();
    if (timers.joinable()) timers.join();
    cx.tr("#%ld main: request_stop on run()", dk::tick());
    loop_stop.request_stop();
    loop.join();
  }
  detsched::set_io_fault(0, -1, 0); detsched::set_io_fault(1, -1, 0);
  dk::free_graveyard();
  g_w = nullptr;
  if (!check) return;
  // ---- oracles
  bool fault_armed = sc.fault_which >= 0;
  for (auto& up : W.ops) {
    OpRec& o = *up;
    if (o.signals != 1) { cx.fail(P, "op_stranded", "an operation of kind %d completed %d times", o.kind, o.signals); continue; }
    if (o.thread != W.loop_thread) cx.fail(P, "completion_thread", "an operation of kind %d completed on thread %d, not on the thread inside run() (%d)", o.kind, o.thread, W.loop_thread);
    if (o.chan == dk::DONE && o.t_stop < 0) cx.fail(P, "done_without_stop", "an operation of kind %d completed with done although its stop source never fired", o.kind);
    if (o.chan == dk::ERROR) {
      if (!fault_armed || sc.fault_err <= 0) cx.fail(P, "unexpected_error", "an operation of kind %d completed with error %d although no syscall failure was injected", o.kind, o.err);
      else if (o.err != (int)sc.fault_err) cx.fail(P, "wrong_os_error", "the injected syscall failure was errno %ld, the operation completed with error code %d", sc.fault_err, o.err);
    }
  }
  if (in.size() != written) cx.fail(P, "bytes_lost_or_invented", "successful writes accepted %zu bytes, successful reads delivered %zu", written, in.size());
  else for (size_t i = 0; i < in.size(); ++i) if (in[i] != pat(i)) { cx.fail(P, "data_corrupted", "byte %zu delivered by the reads is %#x, the byte written there was %#x", i, in[i], pat(i)); break; }
  if (write_errors + read_errors > 0) cx.label("injected-syscall-failure-surfaced");
  if (reads_cancelled) cx.label("read-cancelled");
  if (reads_parked_cancel) cx.label("stop-while-read-outstanding");
  if (total_to_write > 65536) cx.label("write-larger-than-pipe-capacity");
  nontrivial = written >= 2 && (reads_cancelled > 0 || sc.producers > 0 || total_to_write > 65536 || fault_armed || (sc.timers >= 2 && !sc.timer_stops.empty()));
  if (sc.timers >= 2 && !sc.timer_stops.empty()) cx.label("concurrent-timers-with-remote-stop");
}

}  // namespace

extern "C" const char* vk_harness_name() { return "c14_epoll"; }
const char* vk_nontrivial_rule() {
  return "scripts: writer thread (1-4 chunks of 1 B .. 96 KiB, pipe capacity 64 KiB), reader thread (buffers of 1 B .. 80 KiB, each read with its own stop source), stopper thread (stop before start / after a generated number of yields), 0-2 remote producer threads x 1-3 schedule(), "
         "0-4 concurrent timers with remote stops, the n-th readv/writev failing with EIO/EINTR/ENOMEM or transferring half; schedule from the same bytes (detsched, epoll_wait hooked). non-trivial = at least 2 bytes transferred and one of: a read was cancelled, remote producers ran, a write exceeded the pipe capacity, a syscall fault was armed";
}

void vk_run_case(vk::Choice& c) {
  auto& cx = vk::ctx();
  Script sc;
  int nch = 1 + (int)c.upto(4);
  for (int i = 0; i < nch; ++i) { int k = (int)c.upto(6); sc.chunks.push_back(k == 0 ? 1 : k == 1 ? 1 + (int)c.upto(16) : k == 2 ? 1 + (int)c.upto(4096) : k == 3 ? 4096 : k == 4 ? 60000 + (int)c.upto(10000) : 1 + (int)c.upto(98304)); }
  int nb = 1 + (int)c.upto(3);
  for (int i = 0; i < nb; ++i) { int k = (int)c.upto(5); sc.bufs.push_back(k == 0 ? 1 + (int)c.upto(8) : k == 1 ? 1 + (int)c.upto(512) : k == 2 ? 4096 : k == 3 ? 65536 : 1 + (int)c.upto(81920)); }
  // keep the number of reads bounded: tiny buffers only with small totals
  { size_t tot = 0; for (int x : sc.chunks) tot += (size_t)x; int mn = sc.bufs[0]; for (int x : sc.bufs) mn = std::min(mn, x); if (tot / (size_t)mn > 120) for (auto& x : sc.bufs) x = std::max(x, (int)(tot / 100 + 1)); }
  int ns = (int)c.upto(4);
  for (int i = 0; i < ns; ++i) sc.stops.push_back({(int)c.upto(6), c.chance(1, 3) ? -1 : (int)c.upto(12)});
  sc.producers = (int)c.upto(3); sc.per_producer = 1 + (int)c.upto(3);
  sc.timers = c.chance(1, 4) ? 1 + (int)c.upto(2) : 0;
  if (c.chance(1, 3)) { sc.fault_which = (long)c.upto(2); sc.fault_nth = (long)c.upto(6); int e = (int)c.upto(4); sc.fault_err = e == 0 ? EIO : e == 1 ? ENOMEM : e == 2 ? EINTR : -1; }
  // the timer group is derived from the hash of everything decoded so far instead of consuming bytes: byte strings recorded before
  // the group existed keep both their script and their schedule (the schedule is decoded from the bytes that follow the script)
  {
    uint64_t r = c.h * 0x9e3779b97f4a7c15ull + 0x632be59bd9b4e019ull;
    auto nextr = [&](uint32_t k) { r ^= r >> 30; r *= 0xbf58476d1ce4e5b9ull; r ^= r >> 27; r *= 0x94d049bb133111ebull; r ^= r >> 31; return (uint32_t)(r % k); };
    if (sc.timers == 0 && nextr(3) == 0) sc.timers = 0; else if (nextr(3) == 0) sc.timers = 1 + (int)nextr(4);
    for (int k = 0; k < sc.timers; ++k) sc.timer_us[k] = (int)nextr(8) * 60;
    if (sc.timers) { int nst = (int)nextr(4); for (int k = 0; k < nst; ++k) sc.timer_stops.push_back({(int)nextr(4), (int)nextr(10)}); }
  }
  cx.desc = "chunks={"; for (int x : sc.chunks) cx.desc += vk::sfmt("%d ", x); cx.desc += "} bufs={"; for (int x : sc.bufs) cx.desc += vk::sfmt("%d ", x);
  cx.desc += "} stops={"; for (auto& s : sc.stops) cx.desc += vk::sfmt("read%d@%d ", s.first, s.second);
  cx.desc += vk::sfmt("} producers=%dx%d timers=%d(stops=%zu) fault=%s#%ld:%ld", sc.producers, sc.per_producer, sc.timers, sc.timer_stops.size(), sc.fault_which < 0 ? "none" : sc.fault_which == 0 ? "readv" : "writev", sc.fault_nth, sc.fault_err);
  bool nt = false;
  detsched::Options o; o.max_steps = 60000;
  auto res = detsched::run(c, o, [&] { bool dry = detsched::in_dry_run(); bool ig = false; run_script(sc, !dry, dry ? ig : nt); });
  cx.desc += " | " + res.schedule;
  cx.nontrivial = nt && !res.inconclusive;
  if (res.inconclusive) cx.label("inconclusive(step budget)");
}
