// C07 (c) — monotonic_clock::time_point arithmetic is exact and totally ordered.
// Reference model: 128-bit signed nanoseconds.  Operand magnitudes stay below
// 2^40 seconds (beyond that the 64-bit representation overflows by construction).
#include "kit/case.hpp"

#include <unifex/linux/monotonic_clock.hpp>

#include <chrono>

using unifex::linuxos::monotonic_clock;
using tp_t = monotonic_clock::time_point;
typedef __int128 i128;

namespace {
const char* P = "C07";
constexpr long long NS = 1000000000LL;

i128 model_of(const tp_t& t) { return (i128)t.seconds_part() * NS + t.nanoseconds_part(); }

void check_normal(const tp_t& t, i128 expect, const char* what) {
  auto& cx = vk::ctx();
  long long s = t.seconds_part(), n = t.nanoseconds_part();
  if (model_of(t) != expect) cx.fail(P, "time_point_value", "%s: represents %lld s %lld ns, exact result is %lld ns total", what, s, n, (long long)expect);
  if (n <= -NS || n >= NS) cx.fail(P, "time_point_not_normal", "%s: nanoseconds part %lld out of (-1e9, 1e9)", what, n);
  if ((s > 0 && n < 0) || (s < 0 && n > 0)) cx.fail(P, "time_point_not_normal", "%s: seconds %lld and nanoseconds %lld have opposite signs", what, s, n);
}

long long pick_seconds(vk::Choice& c) {
  switch (c.upto(5)) {
    case 0: return 0;
    case 1: return (long long)c.upto(4) - 2;
    case 2: return (long long)c.upto(2000000) - 1000000;
    case 3: return ((long long)c.upto(65536) << 22) * (c.flag() ? 1 : -1);   // up to 2^38 s: differences stay representable in 100ns ticks
    default: return (long long)c.upto(100);
  }
}
long long pick_ns(vk::Choice& c) {
  switch (c.upto(6)) {
    case 0: return 0;
    case 1: return c.flag() ? 999999999LL : -999999999LL;
    case 2: return (long long)c.upto(2000000001u) - 1000000000LL;
    case 3: return ((long long)c.upto(1000000) - 500000) * 100;
    case 4: return ((long long)c.upto(65536) << 20) * (c.flag() ? 1 : -1);   // several seconds worth of nanoseconds
    default: return (long long)c.upto(200) - 100;
  }
}

}  // namespace

extern "C" const char* vk_harness_name() { return "c07_clock"; }
const char* vk_nontrivial_rule() {
  return "two time_points built with from_seconds_and_nanoseconds (seconds in {0, +-1, +-1e6, +-2^40, small}, nanoseconds in {0, +-999999999, arbitrary within +-1e9, tick aligned, multi-second, tiny}) and one duration "
         "(nanoseconds / microseconds / 100ns ticks / milliseconds / seconds); checks: normal form and exact value after construction, += and -=, (tp+d)-d round trip, a-b against the exact difference (< 1 tick error, exact when tick aligned), "
         "all six comparisons against the model, trichotomy, transitivity with a third point. non-trivial = operands of mixed sign or an operation that needs carry/borrow; distinct = hash of decoded operands";
}

void vk_run_case(vk::Choice& c) {
  auto& cx = vk::ctx();
  long long s1 = pick_seconds(c), n1 = pick_ns(c), s2 = pick_seconds(c), n2 = pick_ns(c), s3 = pick_seconds(c), n3 = pick_ns(c);
  unsigned dk = c.upto(5);
  long long dv = (long long)c.upto(4) == 0 ? pick_ns(c) : (long long)c.upto(2000000) - 1000000;
  cx.desc = vk::sfmt("a=(%lld s,%lld ns) b=(%lld s,%lld ns) c=(%lld s,%lld ns) d=%lld of unit %u", s1, n1, s2, n2, s3, n3, dv, dk);
  tp_t a = tp_t::from_seconds_and_nanoseconds(s1, n1), b = tp_t::from_seconds_and_nanoseconds(s2, n2), t3 = tp_t::from_seconds_and_nanoseconds(s3, n3);
  i128 ma = (i128)s1 * NS + n1, mb = (i128)s2 * NS + n2, mc = (i128)s3 * NS + n3;
  check_normal(a, ma, "from_seconds_and_nanoseconds(a)");
  check_normal(b, mb, "from_seconds_and_nanoseconds(b)");
  // duration
  i128 md = 0; tp_t plus = a, minus = a;
  switch (dk) {
    case 0: { std::chrono::nanoseconds d(dv); md = dv; plus += d; minus -= d; break; }
    case 1: { std::chrono::microseconds d(dv); md = (i128)dv * 1000; plus += d; minus -= d; break; }
    case 2: { monotonic_clock::duration d(dv); md = (i128)dv * 100; plus += d; minus -= d; break; }
    case 3: { std::chrono::milliseconds d(dv); md = (i128)dv * 1000000; plus += d; minus -= d; break; }
    default: { std::chrono::seconds d(dv % 100000); md = (i128)(dv % 100000) * NS; plus += d; minus -= d; break; }
  }
  check_normal(plus, ma + md, "a += d");
  check_normal(minus, ma - md, "a -= d");
  // round trip
  {
    tp_t rt = plus;
    switch (dk) {
      case 0: rt -= std::chrono::nanoseconds(dv); break; case 1: rt -= std::chrono::microseconds(dv); break;
      case 2: rt -= monotonic_clock::duration(dv); break; case 3: rt -= std::chrono::milliseconds(dv); break;
      default: rt -= std::chrono::seconds(dv % 100000); break;
    }
    if (!(rt == a)) cx.fail(P, "round_trip", "(a + d) - d != a");
  }
  // difference in 100ns ticks
  {
    auto diff = a - b;
    i128 exact = ma - mb;           // nanoseconds
    i128 got = (i128)diff.count() * 100;
    i128 err = got - exact; if (err < 0) err = -err;
    bool aligned = (ma % 100 == 0) && (mb % 100 == 0);
    if (aligned ? err != 0 : err >= 100) cx.fail(P, "difference", "a - b = %lld ticks, exact difference is %lld ns (error %lld ns, operands %s)", (long long)diff.count(), (long long)exact, (long long)err, aligned ? "tick aligned" : "not aligned");
    if (aligned && md % 100 == 0) {
      auto d2 = plus - a;
      if ((i128)d2.count() * 100 != md) cx.fail(P, "difference", "(a + d) - a = %lld ticks, d = %lld ns", (long long)d2.count(), (long long)md);
    }
  }
  // ordering
  auto cmp = [&](const tp_t& x, i128 mx, const tp_t& y, i128 my, const char* w) {
    if ((x < y) != (mx < my)) cx.fail(P, "order_lt", "%s: operator< gives %d, model %d", w, (int)(x < y), (int)(mx < my));
    if ((x > y) != (mx > my)) cx.fail(P, "order_gt", "%s: operator> disagrees with the model", w);
    if ((x <= y) != (mx <= my)) cx.fail(P, "order_le", "%s: operator<= disagrees with the model", w);
    if ((x >= y) != (mx >= my)) cx.fail(P, "order_ge", "%s: operator>= disagrees with the model", w);
    if ((x == y) != (mx == my)) cx.fail(P, "order_eq", "%s: operator== gives %d, model %d", w, (int)(x == y), (int)(mx == my));
    if ((x != y) != (mx != my)) cx.fail(P, "order_ne", "%s: operator!= disagrees with the model", w);
    int n = (int)(x < y) + (int)(x == y) + (int)(y < x);
    if (n != 1) cx.fail(P, "trichotomy", "%s: exactly one of <, ==, > must hold (%d hold)", w, n);
  };
  cmp(a, ma, b, mb, "a ? b"); cmp(a, ma, plus, ma + md, "a ? a+d"); cmp(minus, ma - md, plus, ma + md, "a-d ? a+d"); cmp(b, mb, t3, mc, "b ? c");
  if (a < b && b < t3 && !(a < t3)) cx.fail(P, "transitivity", "a < b and b < c but not a < c");
  bool mixed = (ma < 0) != (mb < 0) || (ma < 0 && md > 0) || (ma > 0 && md < 0);
  bool carry = (n1 + (long long)(md % NS) >= NS) || (n1 + (long long)(md % NS) <= -NS) || n1 >= NS || n1 <= -NS;
  cx.nontrivial = mixed || carry;
  if (mixed) cx.label("mixed-sign");
  if (carry) cx.label("carry/borrow");
}
