// C19 — completion vs cancellation races in the cancel wrappers, under schedule
// control.  Roles: S runs start(), A delivers the natural completion (possibly
// inside the nested start()), B requests stop (possibly before start); the
// receiver (generated) destroys the operation inside its completion.
// Subjects: cancellable<Nested,false/true> with the documented try_complete
// protocol; detach_on_cancel(child).
#include "kit/case.hpp"
#include "kit/dk.hpp"

#include <unifex/cancellable.hpp>
#include <unifex/detach_on_cancel.hpp>

#include <memory>
#include <thread>

using namespace unifex;

namespace {
const char* P = "C19";

struct World {
  // observations
  int receiver_signals = 0; int chan = dk::NONE; long t_done = -1; int done_thread = -1;
  int nested_starts = 0, nested_stops = 0; long t_nested_start = -1, t_stop_hook = -1, t_stop_req = -1;
  bool stop_hook_after_completion = false, stop_hook_before_start = false;
  int child_ops_created = 0, child_ops_destroyed = 0;
  bool op_destroyed = false;
  long t_won = -1;              // when some party's try_complete() returned true
  bool in_start = false; int start_thread = -1; bool destroy_deferred = false; long t_start_end = -1;
  // plan
  int sync_complete = 0;        // nested start() completes synchronously: 0 no, 1 value
  int stop_reaction = 1;        // nested stop(): 0 ignore (natural completion follows), 1 complete with done
  bool destroy_in_completion = true;
  std::function<void()> destroy_op;
  inplace_stop_source src;
};
World* g_w;

struct Rcv {
  void done(int chan) noexcept {
    World& w = *g_w;
    w.receiver_signals++;
    if (w.receiver_signals > 1) { vk::ctx().fail(P, "two_winners", "the receiver was completed %d times (completion and cancellation both won)", w.receiver_signals); return; }
    w.chan = chan; w.t_done = dk::tick(); w.done_thread = detsched::current_thread();
    vk::ctx().tr("#%ld receiver completes with %s on T%d", w.t_done, dk::chan_name(chan), w.done_thread);
    if (w.destroy_in_completion && w.destroy_op) {
      // KNOWN FINDING cancellable_start_touches_destroyed_op: cancellable's start() still does state_.fetch_or(started) after the nested
      // start() returned; a completion on another thread inside that window lets the receiver destroy the operation first.
      // Excluded by construction: a completion that arrives from another thread while start() is running defers the destruction
      // until start() has returned.
      if (dk::known("cancellable_start_touches_destroyed_op") && w.in_start && detsched::current_thread() != w.start_thread) { w.destroy_deferred = true; vk::ctx().label("destroy-deferred(known finding)"); }
      else { w.op_destroyed = true; w.destroy_op(); }
    }
    detsched::step();
  }
  template <class... V> void set_value(V&&...) && noexcept { done(dk::VALUE); }
  template <class E> void set_error(E&&) && noexcept { done(dk::ERROR); }
  void set_done() && noexcept { done(dk::DONE); }
  friend inplace_stop_token tag_invoke(tag_t<get_stop_token>, const Rcv&) noexcept { return g_w->src.get_token(); }
};

// ---------------------------------------------------------------- nested sender for cancellable<>
struct Shared { std::atomic<void*> self{nullptr}; };

template <class Receiver>
struct NestedOp {
  Receiver r; std::shared_ptr<Shared> sh;
  NestedOp(Receiver&& rr, std::shared_ptr<Shared> s) : r((Receiver &&) rr), sh(std::move(s)) {}
  void start() noexcept {
    World& w = *g_w;
    w.nested_starts++; w.t_nested_start = dk::tick();
    vk::ctx().tr("#%ld nested start()", w.t_nested_start);
    if (w.nested_starts > 1) vk::ctx().fail(P, "nested_started_twice", "the nested operation was started twice");
    if (w.sync_complete) {
      if (try_complete(this)) { w.t_won = dk::tick(); unifex::set_value(std::move(r)); }
      return;
    }
    sh->self.store(this, std::memory_order_release);   // publish for the completer thread
  }
  void stop() noexcept {
    World& w = *g_w;
    w.nested_stops++; w.t_stop_hook = dk::tick();
    vk::ctx().tr("#%ld nested stop() hook", w.t_stop_hook);
    if (w.t_won >= 0) vk::ctx().fail(P, "stop_hook_after_completion", "the nested stop() hook was invoked (at %ld) after a completion had already won try_complete() (at %ld)", w.t_stop_hook, w.t_won);
    if (w.receiver_signals > 0) w.stop_hook_after_completion = true;
    if (w.stop_reaction == 0 && w.nested_starts > 0) return;   // (in skip-start mode stop() replaces start() and has to complete)
    // documented protocol (test/cancellable_test.cpp): take the op out of the shared slot, then try_complete
    if (w.nested_starts == 0 || sh->self.exchange(nullptr, std::memory_order_acq_rel)) {
      if (try_complete(this)) { w.t_won = dk::tick(); unifex::set_done(std::move(r)); }
    }
  }
};
struct NestedSender {
  template <template <class...> class V, template <class...> class T> using value_types = V<T<>>;
  template <template <class...> class V> using error_types = V<std::exception_ptr>;
  static constexpr bool sends_done = true;
  std::shared_ptr<Shared> sh;
  template <class R> friend auto tag_invoke(tag_t<connect>, NestedSender&& s, R&& r) noexcept { return NestedOp<remove_cvref_t<R>>{(R &&) r, std::move(s.sh)}; }
};

// ---------------------------------------------------------------- child sender for detach_on_cancel
struct ChildShared { void* op = nullptr; void (*complete)(void*, int) = nullptr; bool stop_seen = false; };
template <class Receiver>
struct ChildOp {
  Receiver r; ChildShared* cs;
  struct StopFn { ChildOp* op; void operator()() noexcept { op->cs->stop_seen = true; vk::ctx().tr("child observes stop"); } };
  using cb_t = typename stop_token_type_t<Receiver&>::template callback_type<StopFn>;
  manual_lifetime<cb_t> cb; bool cb_live = false;
  ChildOp(Receiver&& rr, ChildShared* c) : r((Receiver &&) rr), cs(c) { g_w->child_ops_created++; }
  ChildOp(ChildOp&&) = delete;
  ~ChildOp() { g_w->child_ops_destroyed++; vk::ctx().tr("child operation state destroyed (T%d)", detsched::current_thread()); }
  void start() noexcept {
    cb.construct(get_stop_token(r), StopFn{this}); cb_live = true;
    cs->complete = [](void* p, int chan) {
      auto* self = static_cast<ChildOp*>(p);
      if (self->cb_live) { self->cb_live = false; self->cb.destruct(); }
      if (chan == dk::VALUE) unifex::set_value(std::move(self->r));
      else if (chan == dk::ERROR) unifex::set_error(std::move(self->r), std::make_exception_ptr(42));
      else unifex::set_done(std::move(self->r));
    };
    cs->op = this;
  }
};
struct ChildSender {
  template <template <class...> class V, template <class...> class T> using value_types = V<T<>>;
  template <template <class...> class V> using error_types = V<std::exception_ptr>;
  static constexpr bool sends_done = true;
  ChildShared* cs;
  template <class R> friend auto tag_invoke(tag_t<connect>, ChildSender&& s, R&& r) { return ChildOp<remove_cvref_t<R>>{(R &&) r, s.cs}; }
};

struct Plan {
  int subject = 0;          // 0 cancellable<.,false>, 1 cancellable<.,true>, 2 detach_on_cancel
  int sync_complete = 0; int stop_reaction = 1; bool destroy_in_completion = true;
  int natural_chan = dk::VALUE;
  int stop_when = 0;        // 0 never, 1 before start, 2 from the stopper thread
  int stopper_yields = 0, completer_yields = 0;
};

Plan decode(vk::Choice& c) {
  Plan p;
  p.subject = (int)c.upto(3);
  p.sync_complete = p.subject != 2 && c.chance(1, 5);
  p.stop_reaction = c.chance(3, 4) ? 1 : 0;
  p.destroy_in_completion = c.chance(3, 4);
  unsigned n = c.upto(10); p.natural_chan = n < 6 ? dk::VALUE : n < 8 ? dk::ERROR : dk::DONE;
  unsigned s = c.upto(10); p.stop_when = s < 2 ? 0 : s < 4 ? 1 : 2;
  p.stopper_yields = (int)c.upto(14); p.completer_yields = (int)c.upto(14);
  return p;
}

std::string describe(const Plan& p) {
  static const char* sn[] = {"cancellable<Nested,false>", "cancellable<Nested,true>(skip-start)", "detach_on_cancel(child)"};
  return vk::sfmt("%s sync_complete=%d nested-stop=%s natural=%s(after %d yields) stop=%s(after %d yields) destroy_in_completion=%d", sn[p.subject], p.sync_complete,
                  p.stop_reaction ? "completes-with-done" : "ignored", dk::chan_name(p.natural_chan), p.completer_yields,
                  p.stop_when == 0 ? "never" : p.stop_when == 1 ? "before-start" : "stopper-thread", p.stopper_yields, (int)p.destroy_in_completion);
}

template <bool StopsEarly>
void run_cancellable(const Plan& p, World& W) {
  auto& cx = vk::ctx();
  auto sh = std::make_shared<Shared>();
  using Snd = cancellable<NestedSender, StopsEarly>;
  using Op = connect_result_t<Snd, Rcv>;
  auto box = std::make_unique<dk::OpBox<Op>>();
  box->emplace(Snd{NestedSender{sh}}, Rcv{});
  W.destroy_op = [&] { box->reset(); };
  if (p.stop_when == 1) { W.t_stop_req = dk::tick(); W.src.request_stop(); }
  std::thread completer([&, sh] {
    for (int k = 0; k < p.completer_yields; ++k) detsched::yield_now();
    // natural completion: only if the nested op was started and nobody has taken it yet
    dk::wait_for([&] { return sh->self.load(std::memory_order_acquire) != nullptr || W.receiver_signals > 0 || W.sync_complete || (StopsEarly && W.nested_stops > 0 && W.nested_starts == 0); });
    if (void* s = sh->self.exchange(nullptr, std::memory_order_acq_rel)) {
      auto* op = static_cast<NestedOp<Rcv>*>(s);
      cx.tr("#%ld completer: natural completion", dk::tick());
      if (try_complete(op)) {
        W.t_won = dk::tick();
        if (p.natural_chan == dk::VALUE) unifex::set_value(std::move(op->r));
        else if (p.natural_chan == dk::ERROR) unifex::set_error(std::move(op->r), std::make_exception_ptr(7));
        else unifex::set_done(std::move(op->r));
      }
    }
  });
  std::thread stopper;
  if (p.stop_when == 2) stopper = std::thread([&] {
    for (int k = 0; k < p.stopper_yields; ++k) detsched::yield_now();
    W.t_stop_req = dk::tick();
    cx.tr("#%ld stopper: request_stop()", W.t_stop_req);
    W.src.request_stop();
  });
  cx.tr("#%ld S: start()", dk::tick());
  W.in_start = true; W.start_thread = detsched::current_thread();
  start(*box->op);
  W.in_start = false; W.t_start_end = dk::tick();
  if (W.destroy_deferred && !W.op_destroyed) { W.op_destroyed = true; box->reset(); }
  cx.tr("#%ld S: start() returned", W.t_start_end);
  completer.join();
  if (stopper.joinable()) stopper.join();
  // stop ignored and natural completion already consumed? everything must be complete by now
  dk::wait_for([&] { return W.receiver_signals > 0; });
  if (!W.op_destroyed) box->reset();
  W.destroy_op = nullptr;
  // oracles
  if (W.receiver_signals != 1) cx.fail(P, "winner_count", "the receiver was completed %d times", W.receiver_signals);
  if (W.nested_stops > 1) cx.fail(P, "stop_hook_twice", "the nested stop() hook ran %d times", W.nested_stops);
  if (W.stop_hook_after_completion) cx.fail(P, "stop_hook_after_completion", "the nested stop() hook ran after the receiver had been completed");
  if (W.nested_stops > 0 && W.t_stop_req < 0) cx.fail(P, "stop_hook_without_request", "the nested stop() hook ran although stop was never requested");
  if (!StopsEarly && W.nested_stops > 0 && W.nested_starts == 0) cx.fail(P, "stop_hook_before_start", "stop() ran on a nested operation that was never started (not in skip-start mode)");
  if (StopsEarly && p.stop_when == 1 && W.nested_starts != 0) cx.fail(P, "start_not_skipped", "skip-start mode: stop was requested before start() but the nested start() ran");
  if (StopsEarly && p.stop_when == 1 && W.nested_stops != 1) cx.fail(P, "skip_start_no_stop_hook", "skip-start mode: stop was requested before start() but the stop() hook ran %d times", W.nested_stops);
  if (!StopsEarly && W.nested_starts != 1) cx.fail(P, "nested_not_started", "the nested operation was started %d times", W.nested_starts);
  if (W.chan == dk::DONE && W.t_stop_req < 0 && p.natural_chan != dk::DONE) cx.fail(P, "done_without_stop", "completed with done although stop was never requested");
}

void run_detach(const Plan& p, World& W) {
  auto& cx = vk::ctx();
  ChildShared cs;
  using Snd = decltype(detach_on_cancel(ChildSender{&cs}));
  using Op = connect_result_t<Snd, Rcv>;
  auto box = std::make_unique<dk::OpBox<Op>>();
  box->emplace(detach_on_cancel(ChildSender{&cs}), Rcv{});
  W.destroy_op = [&] { box->reset(); };
  if (p.stop_when == 1) { W.t_stop_req = dk::tick(); W.src.request_stop(); }
  long t_child_done = -1;
  std::thread completer([&] {
    for (int k = 0; k < p.completer_yields; ++k) detsched::yield_now();
    dk::wait_for([&] { return cs.op != nullptr; });
    t_child_done = dk::tick();
    cx.tr("#%ld completer: child completes with %s", t_child_done, dk::chan_name(p.natural_chan));
    cs.complete(cs.op, p.natural_chan);
  });
  std::thread stopper;
  if (p.stop_when == 2) stopper = std::thread([&] {
    for (int k = 0; k < p.stopper_yields; ++k) detsched::yield_now();
    W.t_stop_req = dk::tick();
    cx.tr("#%ld stopper: request_stop()", W.t_stop_req);
    W.src.request_stop();
    // "completes its receiver with done at once" -- unless the child already won; only meaningful when the
    // operation had been started (its stop callback registered) before the request began
    if (W.receiver_signals == 0 && t_child_done < 0 && W.t_start_end >= 0 && W.t_start_end < W.t_stop_req) cx.fail(P, "detach_not_immediate", "request_stop() returned but detach_on_cancel had not completed its receiver (and the child had not completed either)");
  });
  cx.tr("#%ld S: start()", dk::tick());
  W.in_start = true; W.start_thread = detsched::current_thread();
  start(*box->op);
  W.in_start = false; W.t_start_end = dk::tick();
  if (W.destroy_deferred && !W.op_destroyed) { W.op_destroyed = true; box->reset(); }
  if (p.stop_when == 1 && W.receiver_signals == 0) cx.fail(P, "detach_not_immediate", "stop was requested before start() but start() returned without completing the receiver");
  completer.join();
  if (stopper.joinable()) stopper.join();
  if (!W.op_destroyed) box->reset();
  W.destroy_op = nullptr;
  if (W.receiver_signals != 1) cx.fail(P, "winner_count", "the receiver was completed %d times", W.receiver_signals);
  if (W.child_ops_created != 1 || W.child_ops_destroyed != 1) cx.fail(P, "child_state_lifetime", "the abandoned child operation state was created %d and destroyed %d times", W.child_ops_created, W.child_ops_destroyed);
  if (W.t_stop_req >= 0 && W.chan != dk::DONE && W.t_done > W.t_stop_req && t_child_done > W.t_stop_req && p.stop_when == 1)
    cx.fail(P, "detach_result", "stop was requested before start but the receiver got %s", dk::chan_name(W.chan));
  if (W.t_stop_req < 0 && W.chan != p.natural_chan) cx.fail(P, "detach_result", "no stop was requested; child completed with %s but the receiver got %s", dk::chan_name(p.natural_chan), dk::chan_name(W.chan));
  if (W.t_stop_req >= 0 && !cs.stop_seen && W.chan == dk::DONE && p.natural_chan != dk::DONE) cx.fail("C04", "child_not_stopped", "detach_on_cancel completed with done because of the stop request but never requested stop on the child");
}

}  // namespace

extern "C" const char* vk_harness_name() { return "c19_cancel"; }
const char* vk_nontrivial_rule() {
  return "plan: subject in {cancellable<Nested,false>, cancellable<Nested,true>, detach_on_cancel(child)} x nested start completes synchronously or publishes itself for a completer thread (natural value/error/done after k yields) x "
         "stop {never, before start, from a stopper thread after k yields} x nested stop() {completes with done, ignored} x receiver destroys the operation inside its completion or not; schedule from the same bytes (detsched). "
         "non-trivial = a stop request and a natural completion both happen in the case (>=2 of {completion, stop, start() return} can overlap); distinct = hash of plan + schedule";
}

void vk_run_case(vk::Choice& c) {
  auto& cx = vk::ctx();
  Plan p = decode(c);
  cx.desc = describe(p);
  detsched::Options o; o.max_steps = 30000;
  auto res = detsched::run(c, o, [&] {
    dk::clock_ref() = 0;
    World W; g_w = &W;
    W.sync_complete = p.sync_complete; W.stop_reaction = p.stop_reaction; W.destroy_in_completion = p.destroy_in_completion;
    if (p.subject == 0) run_cancellable<false>(p, W);
    else if (p.subject == 1) run_cancellable<true>(p, W);
    else run_detach(p, W);
    g_w = nullptr;
  });
  cx.desc += " | " + res.schedule;
  cx.nontrivial = p.stop_when != 0 && !p.sync_complete && !res.inconclusive;
  cx.label(vk::sfmt("subject%d", p.subject));
  if (res.inconclusive) cx.label("inconclusive(step budget)");
}
