// C10 — coroutine tasks map sender results faithfully and always run their cleanup.
//
// A case is a small program interpreted by ONE recursive coroutine function (task<long> run_node): nodes are lists of
// steps (construct a tracked local, co_await a harness sender, co_await a harness awaitable, co_await as_sender(awaitable),
// co_await a child task, co_await done_as_optional(child), try { co_await child } catch, register a cleanup action with
// at_coroutine_exit (which may itself await a sender), throw, co_await stop(), co_await stop_if_requested(), return).
// The behaviour of every awaited sender occurrence (value / error / done, inline or deferred, completion context,
// reaction to stop), the step at which the receiver's stop source fires and the order of deferred completions and
// scheduler hops are decoded from the case bytes.  The same program is run by a reference interpreter (plain recursion).
//
// Oracles
//   the sequence of body events (node entered, sender started, coroutine resumed after an await, exception caught,
//   return reached) equals the reference interpreter's; the task's result (value / error identity / done) equals it;
//   every frame's locals are destroyed exactly once and every registered cleanup action runs exactly once, in reverse
//   registration order, after the frame's last body event and before the parent's next event / the final result;
//   a stop request reaches the sender that is being awaited (observed on its token before request_stop returns);
//   no awaited operation is destroyed while running, nothing leaks (LeakSanitizer + registries).
#include "kit/case.hpp"
#include "kit/sr.hpp"

#include <unifex/any_scheduler.hpp>
#include <unifex/at_coroutine_exit.hpp>
#include <unifex/connect_awaitable.hpp>
#include <unifex/done_as_optional.hpp>
#include <unifex/stop_if_requested.hpp>
#include <unifex/task.hpp>

#include <optional>
#include <set>

namespace {
const char* P = "C10";
using sr::HStopSource; using sr::HStopToken;
enum { VALUE = 0, ERROR = 1, DONE = 2 };

struct LeafErr { long code; };
struct ProgErr { long code; };
long err_code(const std::exception_ptr& e) {
  try { std::rethrow_exception(e); }
  catch (const LeafErr& x) { return 1000000 + x.code; }
  catch (const ProgErr& x) { return 2000000 + x.code; }
  catch (...) { return 999; }
}

enum EvKind { E_ENTER, E_LEAF_START, E_RESUME, E_CATCH, E_RETURN, E_CLEANUP_RUN, E_CLEANUP_LEAF, E_LOCALS_DTOR, E_AWAITABLE };
const char* ev_name(int k) { static const char* n[] = {"enter", "sender-started", "resumed", "caught", "return", "cleanup-run", "cleanup-sender-started", "locals-destroyed", "awaitable"}; return n[k]; }
struct Ev { int kind; int frame; long a; long t; };
bool is_body(int k) { return k == E_ENTER || k == E_LEAF_START || k == E_RESUME || k == E_CATCH || k == E_RETURN || k == E_AWAITABLE; }

struct LeafSpec { int chan = VALUE; int timing = 0; int ctx = 0; int on_stop = 1; };
enum StepKind { S_LOCAL, S_LEAF, S_CHILD, S_CHILD_OPT, S_TRY_CHILD, S_CLEANUP, S_THROW, S_STOP, S_SIR, S_AWAITABLE, S_AS_SENDER, S_TRY_LEAF, S_CHILD_MOVED, S_PAYLOAD, NSTEPKINDS };
constexpr int LEGACY_NSTEPKINDS = 12;
struct Step { int kind; int a = 0; int b = 0; };
struct Node { std::vector<Step> steps; };
struct Pending { int kind; void* op; void (*fire)(void*, int); long occ; };   // kind 0 leaf natural, 1 leaf done-after-stop, 2 context item, 3 awaitable resume

struct Env {
  std::vector<Node> nodes; std::vector<LeafSpec> leaf;   // leaf occurrence i behaves as leaf[i % size]
  long seq = 0; std::vector<Ev> trace;
  int next_frame = 0; long leaf_occ = 0;
  std::vector<Pending> pending;
  HStopSource ss; bool stop_requested = false; long stop_at_occ = -1; long t_stop_begin = -1, t_stop_end = -1;
  int ctx = 0;
  struct LeafRun { long t_start, t_stop_seen = -1, t_complete = -1; bool stopped_at_start = false, in_cleanup = false, destroyed = false; int chan = -1; };
  std::vector<LeafRun> runs;
  int root_signals = 0, root_chan = -1; long root_val = 0, root_err = 0, t_root = -1;
  std::set<const void*> live_ops;
  long frame_args = 0;   // live by-value coroutine arguments == live coroutine frames (plus temporaries while a call is evaluated)
  void ev(int kind, int frame, long a = 0) { trace.push_back(Ev{kind, frame, a, ++seq}); SR_TR("frame%d: %s %ld", frame, ev_name(kind), a); }
  void remove_pending(void* op) { for (size_t i = 0; i < pending.size();) if (pending[i].op == op) pending.erase(pending.begin() + (long)i); else ++i; }
};
Env* g_env = nullptr;
Env& E() { return *g_env; }
long leaf_value(long occ) { return 100 + occ * 3; }

// ---------------------------------------------------------------------------------------------- harness sender awaited by tasks
struct CoLeaf {
  bool in_cleanup = false;
  template <template <class...> class V, template <class...> class T> using value_types = V<T<long>>;
  template <template <class...> class V> using error_types = V<std::exception_ptr>;
  static constexpr bool sends_done = true;
  template <class R> struct Op {
    using stop_token_t = unifex::stop_token_type_t<R&>;
    struct StopFn { Op* op; void operator()() noexcept { op->on_stop(); } };
    using cb_t = typename stop_token_t::template callback_type<StopFn>;
    R r; bool in_cleanup; long occ = -1; bool started = false, completed = false, cb_live = false, in_ctor = false, stop_in_ctor = false, pend_done = false;
    bool* destroyed_flag = nullptr;
    unifex::manual_lifetime<cb_t> cb;
    Op(R&& rr, bool ic) : r((R &&) rr), in_cleanup(ic) { E().live_ops.insert(this); }
    Op(Op&&) = delete;
    ~Op() {
      if (!E().live_ops.erase(this)) SR_FAIL(P, "awaited_op_destroyed_twice", "an awaited operation state was destroyed twice");
      if (destroyed_flag) *destroyed_flag = true;
      if (occ >= 0) E().runs[(size_t)occ].destroyed = true;
      if (started && !completed) {
        SR_FAIL(P, "awaited_op_destroyed_in_flight", "the operation of awaited sender #%ld was destroyed after start() and before it completed", occ);
        if (cb_live) { cb_live = false; cb.destruct(); }
        E().remove_pending(this);
      }
    }
    LeafSpec spec() const { LeafSpec s = E().leaf[(size_t)occ % E().leaf.size()]; if (in_cleanup) { s.chan = VALUE; } return s; }
    void start() noexcept {
      Env& e = E(); started = true; occ = e.leaf_occ++;
      e.runs.emplace_back(); auto& run = e.runs.back(); run.t_start = ++e.seq; run.in_cleanup = in_cleanup;
      auto tok = unifex::get_stop_token(r);
      run.stopped_at_start = tok.stop_requested();
      SR_TR("sender#%ld started%s (token stopped=%d)", occ, in_cleanup ? " [cleanup action]" : "", (int)run.stopped_at_start);
      bool destroyed = false; destroyed_flag = &destroyed;
      cb_live = true; in_ctor = true; cb.construct(tok, StopFn{this}); in_ctor = false;
      if (stop_in_ctor) on_stop();
      if (destroyed) return;
      destroyed_flag = nullptr;
      if (completed || pend_done) return;
      LeafSpec s = spec();
      if (s.timing == 0) complete(s.chan);
      else e.pending.push_back(Pending{0, this, [](void* p, int k) { static_cast<Op*>(p)->fire(k); }, occ});
    }
    void on_stop() noexcept {
      if (in_ctor) { stop_in_ctor = true; return; }
      Env& e = E(); auto& run = e.runs[(size_t)occ];
      if (run.t_stop_seen >= 0) return;
      run.t_stop_seen = ++e.seq;
      SR_TR("sender#%ld observes stop", occ);
      if (completed) return;
      LeafSpec s = spec();
      if (s.on_stop == 1) { e.remove_pending(this); complete(DONE); }
      else if (s.on_stop == 2 && !pend_done) { e.remove_pending(this); pend_done = true; e.pending.push_back(Pending{1, this, [](void* p, int k) { static_cast<Op*>(p)->fire(k); }, occ}); }
    }
    void fire(int k) noexcept { LeafSpec s = spec(); int prev = E().ctx; E().ctx = s.ctx; complete(k == 1 ? DONE : s.chan); E().ctx = prev; }
    void complete(int chan) noexcept {
      Env& e = E(); completed = true; auto& run = e.runs[(size_t)occ]; run.t_complete = ++e.seq; run.chan = chan;
      if (cb_live) { cb_live = false; cb.destruct(); }
      long o = occ;
      SR_TR("sender#%ld completes with %s on ctx%d", o, sr::chan_name(chan), e.ctx);
      if (chan == VALUE) unifex::set_value(std::move(r), (long)leaf_value(o));
      else if (chan == ERROR) unifex::set_error(std::move(r), std::make_exception_ptr(LeafErr{o}));
      else unifex::set_done(std::move(r));
    }
  };
  template <class R> friend Op<unifex::remove_cvref_t<R>> tag_invoke(unifex::tag_t<unifex::connect>, CoLeaf s, R&& r) { return Op<unifex::remove_cvref_t<R>>{(R &&) r, s.in_cleanup}; }
};

// a plain awaitable (not a sender): ready or suspending; yields a value or throws.  Three await_suspend shapes: void,
// bool (false = "did not suspend after all", true = suspended), coroutine_handle (symmetric transfer to the awaiter itself)
struct HAwaitable {
  long id; int mode;   // bit0: suspends (resumed later by the driver), bit1: throws, bits 2-3: await_suspend shape (0 void, 1 bool, 2 handle)
  struct base {
    long id; int mode; unifex::coro::coroutine_handle<> h{};
    void park(unifex::coro::coroutine_handle<> hh) noexcept { h = hh; E().pending.push_back(Pending{3, this, [](void* p, int) { static_cast<base*>(p)->h.resume(); }, -1}); }
    long await_resume() const { if (mode & 2) throw ProgErr{500 + id}; return 7000 + id; }
  };
  // mode bit 4 (16): the awaiter resumes the coroutine from inside await_suspend (as another thread could do before await_suspend
  // returns); after resume() returns the awaiter may be gone, so nothing of *this is touched any more
  struct awaiter_void : base {
    bool await_ready() const noexcept { return !(this->mode & 1) && !(this->mode & 16); }
    void await_suspend(unifex::coro::coroutine_handle<> hh) noexcept { if (this->mode & 16) { SR_TR("awaitable %ld resumes the coroutine inside await_suspend", this->id); hh.resume(); return; } this->park(hh); }
  };
  struct awaiter_bool : base {
    bool await_ready() const noexcept { return false; }
    bool await_suspend(unifex::coro::coroutine_handle<> hh) noexcept { if (this->mode & 16) { SR_TR("awaitable %ld resumes the coroutine inside await_suspend", this->id); hh.resume(); return true; } if (this->mode & 1) { this->park(hh); return true; } return false; }
  };
  struct awaiter_handle : base {
    bool await_ready() const noexcept { return false; }
    unifex::coro::coroutine_handle<> await_suspend(unifex::coro::coroutine_handle<> hh) noexcept { if (this->mode & 16) { SR_TR("awaitable %ld resumes the coroutine inside await_suspend", this->id); hh.resume(); return unifex::coro::noop_coroutine(); } if (this->mode & 1) { this->park(hh); return unifex::coro::noop_coroutine(); } return hh; }
  };
};
struct HAwaitableVoid { long id; int mode; HAwaitable::awaiter_void operator co_await() const noexcept { return {{id, mode}}; } };
struct HAwaitableBool { long id; int mode; HAwaitable::awaiter_bool operator co_await() const noexcept { return {{id, mode}}; } };
struct HAwaitableHandle { long id; int mode; HAwaitable::awaiter_handle operator co_await() const noexcept { return {{id, mode}}; } };

struct XSched {
  int ctx = 0;
  struct sender {
    int ctx;
    template <template <class...> class V, template <class...> class T> using value_types = V<T<>>;
    template <template <class...> class V> using error_types = V<>;
    static constexpr bool sends_done = true;
    static constexpr unifex::blocking_kind blocking = unifex::blocking_kind::never;
    template <class R> struct op {
      int ctx; R r; bool started = false, done = false;
      op(int c, R&& rr) : ctx(c), r((R &&) rr) {}
      op(op&&) = delete;
      void start() noexcept { started = true; E().pending.push_back(Pending{2, this, [](void* p, int) { static_cast<op*>(p)->fire(); }, -1}); }
      void fire() noexcept {
        done = true; int prev = E().ctx; E().ctx = ctx;
        unifex::set_value(std::move(r));   // this scheduler runs its items regardless of stop requests (the reference interpreter does not model hops)
        E().ctx = prev;
      }
      ~op() { if (started && !done) { SR_FAIL(P, "ctx_item_destroyed_pending", "a schedule() operation was destroyed while still enqueued"); E().remove_pending(this); } }
    };
    template <class R> friend op<unifex::remove_cvref_t<R>> tag_invoke(unifex::tag_t<unifex::connect>, sender s, R&& r) { return op<unifex::remove_cvref_t<R>>{s.ctx, (R &&) r}; }
  };
  sender schedule() const noexcept { return sender{ctx}; }
  friend bool operator==(XSched a, XSched b) noexcept { return a.ctx == b.ctx; }
  friend bool operator!=(XSched a, XSched b) noexcept { return a.ctx != b.ctx; }
};

// passed by value into every coroutine: lives in the frame from its creation (even if the task is never started) to its destruction
struct ArgGuard {
  ArgGuard() { E().frame_args++; }
  ArgGuard(ArgGuard&&) noexcept { E().frame_args++; }
  ArgGuard(const ArgGuard&) = delete;
  ~ArgGuard() { E().frame_args--; }
};

struct FrameGuard {
  int f; bool moved = false;
  explicit FrameGuard(int fr) : f(fr) {}
  FrameGuard(const FrameGuard&) = delete;
  ~FrameGuard() { E().ev(E_LOCALS_DTOR, f); }
};

// C11: a task<> resumes on its scheduler's context (ctx0 here) whatever context the awaited sender completed on
void check_affinity(int f) {
  if (E().ctx != 0) SR_FAIL("C11", "task_resumed_off_scheduler", "coroutine frame %d resumed on ctx%d after awaiting a sender that completed there; a task<> resumes on its own scheduler (ctx0)", f, E().ctx);
}

unifex::task<void> cleanup_action(int f, int k, bool awaits) {
  E().ev(E_CLEANUP_RUN, f, k);
  if (awaits) { E().ev(E_CLEANUP_LEAF, f, k); (void)co_await CoLeaf{true}; }
  co_return;
}

// a task whose result type has a noexcept move but a copy that may throw, returned by copy from a const object: an exception thrown while
// the co_return operand is converted into the result is an escaped exception like any other (set_error / rethrown in the parent)
bool g_payload_copy_throws = false;
struct Payload {
  long v;
  explicit Payload(long x) noexcept : v(x) {}
  Payload(Payload&& o) noexcept : v(o.v) {}
  Payload(const Payload& o) : v(o.v) { if (g_payload_copy_throws) { g_payload_copy_throws = false; throw ProgErr{777}; } }
  Payload& operator=(Payload&&) noexcept = default;
};
unifex::task<Payload> payload_task(bool throws, ArgGuard = ArgGuard{}) {
  const Payload p{55};
  g_payload_copy_throws = throws;
  co_return p;
}

unifex::task<long> run_node(int n, ArgGuard = ArgGuard{});
unifex::task<long> run_node(int n, ArgGuard) {
  Env& e = E();
  int f = e.next_frame++;
  e.ev(E_ENTER, f, n);
  FrameGuard guard{f};
  long acc = n;
  const Node& node = e.nodes[(size_t)n];
  for (size_t si = 0; si < node.steps.size(); ++si) {
    const Step st = node.steps[si];
    switch (st.kind) {
      case S_LOCAL: acc += 1; break;
      case S_LEAF: { e.ev(E_LEAF_START, f, e.leaf_occ); long v = co_await CoLeaf{}; check_affinity(f); E().ev(E_RESUME, f, v); acc = (long)((unsigned long)acc * 31u + (unsigned long)v); break; }
      case S_TRY_LEAF: {
        long v = -3;
        try { E().ev(E_LEAF_START, f, E().leaf_occ); v = co_await CoLeaf{}; check_affinity(f); E().ev(E_RESUME, f, v); }
        catch (const LeafErr& x) { E().ev(E_CATCH, f, 1000000 + x.code); v = -4; }
        acc = (long)((unsigned long)acc * 31u + (unsigned long)v); break;
      }
      case S_CHILD: { long v = co_await run_node(st.a); E().ev(E_RESUME, f, v); acc = (long)((unsigned long)acc * 31u + (unsigned long)v); break; }
      case S_CHILD_MOVED: {   // task objects that are moved, move-assigned over an unstarted task, or dropped unstarted: every frame is still destroyed once
        long v;
        if (st.b == 0) { auto t = run_node(st.a); t = run_node(st.a); v = co_await std::move(t); }
        else if (st.b == 1) { auto t = run_node(st.a); auto t2 = std::move(t); v = co_await std::move(t2); }
        else if (st.b == 2) { { auto dropped = run_node(st.a); (void)dropped; } v = co_await run_node(st.a); }
        else { auto t = run_node(st.a); auto t2 = std::move(t); t = run_node(st.a); v = co_await std::move(t); }
        E().ev(E_RESUME, f, v); acc = (long)((unsigned long)acc * 31u + (unsigned long)v); break;
      }
      case S_CHILD_OPT: { std::optional<long> o = co_await unifex::done_as_optional(run_node(st.a)); long v = o ? *o : -5; E().ev(E_RESUME, f, v); acc = (long)((unsigned long)acc * 31u + (unsigned long)v); break; }
      case S_TRY_CHILD: {
        long v = -3;
        try { v = co_await run_node(st.a); E().ev(E_RESUME, f, v); }
        catch (const LeafErr& x) { E().ev(E_CATCH, f, 1000000 + x.code); v = -4; }
        catch (const ProgErr& x) { E().ev(E_CATCH, f, 2000000 + x.code); v = -6; }
        acc = (long)((unsigned long)acc * 31u + (unsigned long)v); break;
      }
      case S_PAYLOAD: { E().ev(E_AWAITABLE, f, 900 + st.b); Payload pl = co_await payload_task(st.b != 0); g_payload_copy_throws = false; E().ev(E_RESUME, f, pl.v); acc = (long)((unsigned long)acc * 31u + (unsigned long)pl.v); break; }
      case S_CLEANUP: co_await unifex::at_coroutine_exit(cleanup_action, (int)f, (int)st.a, (bool)(st.b != 0)); break;
      case S_THROW: throw ProgErr{(long)st.a};
      case S_STOP: co_await unifex::stop(); break;
      case S_SIR: co_await unifex::stop_if_requested(); E().ev(E_RESUME, f, -9); break;
      case S_AWAITABLE: {
        E().ev(E_AWAITABLE, f, st.a); long v;
        int shape = (st.b >> 2) & 3;
        if (shape == 1) v = co_await HAwaitableBool{st.a, st.b}; else if (shape == 2) v = co_await HAwaitableHandle{st.a, st.b}; else v = co_await HAwaitableVoid{st.a, st.b};
        E().ev(E_RESUME, f, v); acc = (long)((unsigned long)acc * 31u + (unsigned long)v); break;
      }
      case S_AS_SENDER: {
        E().ev(E_AWAITABLE, f, st.a); long v;
        int shape = (st.b >> 2) & 3;
        if (shape == 1) v = co_await unifex::as_sender(HAwaitableBool{st.a, st.b}); else if (shape == 2) v = co_await unifex::as_sender(HAwaitableHandle{st.a, st.b}); else v = co_await unifex::as_sender(HAwaitableVoid{st.a, st.b});
        E().ev(E_RESUME, f, v); acc = (long)((unsigned long)acc * 31u + (unsigned long)v); break;
      }
    }
  }
  E().ev(E_RETURN, f, acc);
  co_return acc;
}

// ---------------------------------------------------------------------------------------------- reference interpreter
struct MOut { int chan; long val; long err; };
struct Model {
  Env& e; std::vector<Ev> body; int next_frame = 0; long occ = 0; bool stopped = false;
  struct FrameInfo { int parent; std::vector<int> cleanups; bool entered = false; };
  std::vector<FrameInfo> frames;
  bool unknown = false;   // behaviour not pinned down by the documentation for this case: comparison off
  explicit Model(Env& en) : e(en) {}
  void ev(int k, int f, long a) { body.push_back(Ev{k, f, a, 0}); }
  const std::vector<Ev>* real_body = nullptr;   // set for the comparison run: observations that the documentation leaves open are taken from the real run
  int observed_used = 0;
  // outcome of awaiting sender occurrence `o` (main body, stoppable).  `thunked`: the awaiting frame sits below a task that was
  // connected as a sender (done_as_optional(child)): task.hpp forwards stop requests into such a task through its scheduler
  // (inject_stop_request_thunk / deferred_stop_request), so *when* the request becomes visible there depends on when that
  // scheduler item runs; the reference then takes "saw the stop or not" from the real run and only checks it is one of the two
  // legal outcomes.
  MOut leaf(bool thunked) {
    long o = occ++; LeafSpec s = e.leaf[(size_t)o % e.leaf.size()];
    MOut natural = s.chan == VALUE ? MOut{VALUE, leaf_value(o), 0} : s.chan == ERROR ? MOut{ERROR, 0, 1000000 + o} : MOut{DONE, 0, 0};
    if (stopped && thunked) {
      if (s.on_stop == 0 || (size_t)o >= e.runs.size()) return natural;
      observed_used++;
      return e.runs[(size_t)o].chan == DONE ? MOut{DONE, 0, 0} : natural;
    }
    if (stopped && s.on_stop != 0) return MOut{DONE, 0, 0};   // started with a stopped token: done at once (or deferred done)
    if (s.timing == 1 && o == e.stop_at_occ && !stopped) {
      stopped = true;
      if (s.on_stop != 0) return MOut{DONE, 0, 0};
    }
    return natural;
  }
  void cleanup_leaf() { occ++; }
  MOut run(int n, int parent, bool thunked = false) {
    int f = next_frame++; frames.push_back(FrameInfo{parent, {}, true});
    ev(E_ENTER, f, n);
    long acc = n; MOut out{VALUE, 0, 0}; bool exited = false;
    const Node& node = e.nodes[(size_t)n];
    for (size_t si = 0; si < node.steps.size() && !exited; ++si) {
      const Step st = node.steps[si];
      switch (st.kind) {
        case S_LOCAL: acc += 1; break;
        case S_LEAF: case S_TRY_LEAF: {
          ev(E_LEAF_START, f, occ); MOut r = leaf(thunked);
          if (r.chan == VALUE) { ev(E_RESUME, f, r.val); acc = (long)((unsigned long)acc * 31u + (unsigned long)r.val); }
          else if (r.chan == ERROR && st.kind == S_TRY_LEAF) { ev(E_CATCH, f, r.err); acc = (long)((unsigned long)acc * 31u + (unsigned long)-4L); }
          else { out = r; exited = true; }
          break;
        }
        case S_CHILD: case S_CHILD_OPT: case S_TRY_CHILD: case S_CHILD_MOVED: {
          MOut r = run(st.a, f, thunked || st.kind == S_CHILD_OPT);
          if (r.chan == VALUE) { ev(E_RESUME, f, r.val); acc = (long)((unsigned long)acc * 31u + (unsigned long)r.val); }
          else if (r.chan == DONE && st.kind == S_CHILD_OPT) { ev(E_RESUME, f, -5); acc = (long)((unsigned long)acc * 31u + (unsigned long)-5L); }
          else if (r.chan == ERROR && st.kind == S_TRY_CHILD) { ev(E_CATCH, f, r.err); acc = (long)((unsigned long)acc * 31u + (unsigned long)(r.err >= 2000000 ? -6L : -4L)); }
          else { out = r; exited = true; }
          break;
        }
        case S_PAYLOAD: {
          ev(E_AWAITABLE, f, 900 + st.b);
          if (st.b) { out = MOut{ERROR, 0, 2000000 + 777}; exited = true; }
          else { ev(E_RESUME, f, 55); acc = (long)((unsigned long)acc * 31u + (unsigned long)55); }
          break;
        }
        case S_CLEANUP: frames[(size_t)f].cleanups.push_back(st.a); break;
        case S_THROW: out = MOut{ERROR, 0, 2000000 + st.a}; exited = true; break;
        case S_STOP: out = MOut{DONE, 0, 0}; exited = true; break;
        case S_SIR: {
          bool sees = stopped;
          if (stopped && thunked && real_body) { observed_used++; size_t i = body.size(); sees = !(i < real_body->size() && (*real_body)[i].kind == E_RESUME && (*real_body)[i].frame == f && (*real_body)[i].a == -9); }
          if (sees) { out = MOut{DONE, 0, 0}; exited = true; } else ev(E_RESUME, f, -9);
          break;
        }
        case S_AWAITABLE: case S_AS_SENDER: {
          ev(E_AWAITABLE, f, st.a);
          if (st.b & 2) { out = MOut{ERROR, 0, 2000000 + 500 + st.a}; exited = true; }
          else { ev(E_RESUME, f, 7000 + st.a); acc = (long)((unsigned long)acc * 31u + (unsigned long)(7000 + st.a)); }
          break;
        }
      }
    }
    if (!exited) { ev(E_RETURN, f, acc); out = MOut{VALUE, acc, 0}; }
    // exit: cleanup actions (each may await one value-only sender), reverse registration order
    auto& cl = frames[(size_t)f].cleanups;
    for (size_t i = cl.size(); i-- > 0;) { int k = cl[i]; for (auto& st : node.steps) if (st.kind == S_CLEANUP && st.a == k && st.b) cleanup_leaf(); }
    return out;
  }
};

}  // namespace

extern "C" const char* vk_harness_name() { return "c10_tasks"; }
const char* vk_nontrivial_rule() {
  return "a case = program of 1..5 nodes x 1..7 steps (local, co_await sender, try{co_await sender}, co_await child task, done_as_optional(child), try{child}catch, at_coroutine_exit (optionally awaiting a sender), throw, stop(), stop_if_requested(), "
         "co_await awaitable (ready/suspending, value/throwing), co_await as_sender(awaitable)) x per-occurrence sender behaviour (value/error/done, inline/deferred, completion context, reaction to stop) x stop step x order of deferred events. "
         "non-trivial = at least two frames, at least one registered cleanup action and one of: a frame left by exception, a frame left by done, a stop request delivered to a sender in flight. distinct = hash of the decoded case";
}

struct RootR {
  void fin(int ch, long v, long er) noexcept {
    Env& e = E(); e.root_signals++;
    if (e.root_signals > 1) { SR_FAIL(P, "task_completed_twice", "the task's receiver was completed %d times", e.root_signals); return; }
    e.root_chan = ch; e.root_val = v; e.root_err = er; e.t_root = ++e.seq;
    if (e.ctx != 0) SR_FAIL("C11", "task_completed_off_scheduler", "the task completed its receiver on ctx%d; a task<> completes on the scheduler it was started on (ctx0)", e.ctx);
    // KNOWN FINDING task_done_late_deregistration (C04): a task<> that ends with done keeps the stop-token adapter of its awaiter subscribed on the
    // receiver's token until the operation state is destroyed.  Excluded by construction = the callback bookkeeping is not armed for done completions.
    static const bool known_done = ("," + vk::ctx().arg("known") + ",").find(",task_done_late_deregistration,") != std::string::npos;
    if (ch == DONE && known_done) vk::ctx().label("excluded-by-known-finding:task_done_late_deregistration");
    else e.ss.mark_root_completed();
    SR_TR("root: %s %ld", sr::chan_name(ch), ch == VALUE ? v : er);
  }
  void set_value(long v) && noexcept { fin(VALUE, v, 0); }
  void set_error(std::exception_ptr ep) && noexcept { fin(ERROR, 0, err_code(ep)); }
  void set_done() && noexcept { fin(DONE, 0, 0); }
  friend HStopToken tag_invoke(unifex::tag_t<unifex::get_stop_token>, const RootR&) noexcept { return HStopToken{&E().ss}; }
  friend XSched tag_invoke(unifex::tag_t<unifex::get_scheduler>, const RootR&) noexcept { return XSched{0}; }
};

void vk_run_case(vk::Choice& c) {
  auto& cx = vk::ctx();
  Env env; g_env = &env; Env& e = env;
  // ---- decode the program (--legacy=1: byte strings recorded before S_CHILD_MOVED / inline-resuming awaitables existed)
  const bool legacy = cx.argi("legacy", 0) != 0;
  int nnodes = 1 + (int)c.upto(5);
  e.nodes.resize((size_t)nnodes);
  int cleanup_id = 0; bool any_cleanup = false;
  for (int n = 0; n < nnodes; ++n) {
    int ns = 1 + (int)c.upto(7);
    for (int s = 0; s < ns; ++s) {
      Step st; st.kind = (int)c.upto(legacy ? LEGACY_NSTEPKINDS : NSTEPKINDS);
      bool has_child = n + 1 < nnodes;
      if ((st.kind == S_CHILD || st.kind == S_CHILD_OPT || st.kind == S_TRY_CHILD || st.kind == S_CHILD_MOVED)) { if (!has_child) st.kind = S_LEAF; else st.a = n + 1 + (int)c.upto((uint32_t)(nnodes - n - 1)); }
      if (st.kind == S_CHILD_MOVED) st.b = (int)c.upto(4);
      if (st.kind == S_PAYLOAD) st.b = c.chance(1, 2) ? 1 : 0;
      if (st.kind == S_CLEANUP) { st.a = cleanup_id++; st.b = (int)c.upto(2); any_cleanup = true; }
      if (st.kind == S_THROW) { st.a = 10 * n + s; if (!c.chance(1, 3)) st.kind = S_LEAF; }
      if (st.kind == S_STOP && !c.chance(1, 3)) st.kind = S_LEAF;
      if (st.kind == S_AWAITABLE || st.kind == S_AS_SENDER) { st.a = 10 * n + s; st.b = (int)c.upto(12); if (st.b & 2) { if (!c.chance(1, 2)) st.b &= ~2; } if (!legacy && c.chance(1, 4)) st.b |= 16; }
      e.nodes[(size_t)n].steps.push_back(st);
    }
  }
  int nleaf = 1 + (int)c.upto(6);
  for (int i = 0; i < nleaf; ++i) {
    LeafSpec s; s.chan = c.chance(1, 3) ? (int)c.upto(3) : VALUE; s.timing = (int)c.upto(2); s.ctx = (int)c.upto(3); s.on_stop = 1 + (int)c.upto(3); if (s.on_stop == 3) s.on_stop = 0;
    e.leaf.push_back(s);
  }
  e.stop_at_occ = c.chance(1, 2) ? (long)c.upto(8) : -1;
  {
    std::string d = "program:";
    static const char* sk[] = {"local", "await-sender", "child", "opt(child)", "try{child}", "at_exit", "throw", "stop()", "stop_if_requested", "awaitable", "as_sender(awaitable)", "try{await-sender}", "moved-task(child)", "await-task<Payload>(co_return by copy)"};
    for (int n = 0; n < nnodes; ++n) { d += vk::sfmt(" node%d[", n); for (auto& st : e.nodes[(size_t)n].steps) d += vk::sfmt("%s%s ", sk[st.kind], (st.kind == S_CHILD || st.kind == S_CHILD_OPT || st.kind == S_TRY_CHILD) ? vk::sfmt("->%d", st.a).c_str() : st.kind == S_CHILD_MOVED ? vk::sfmt("->%d/%s", st.a, st.b == 0 ? "assigned-over-unstarted" : st.b == 1 ? "move-constructed" : st.b == 2 ? "extra-task-dropped" : "moved+reassigned").c_str() : st.kind == S_PAYLOAD ? (st.b ? "(copy throws)" : "(copy ok)") : st.kind == S_CLEANUP ? vk::sfmt("#%d%s", st.a, st.b ? "+sender" : "").c_str() : (st.kind == S_AWAITABLE || st.kind == S_AS_SENDER) ? vk::sfmt("(%s,%s,%s)", st.b & 16 ? "resumed-inside-await_suspend" : st.b & 1 ? "suspends" : "ready", st.b & 2 ? "throws" : "value", ((st.b >> 2) & 3) == 1 ? "bool await_suspend" : ((st.b >> 2) & 3) == 2 ? "handle await_suspend" : "void await_suspend").c_str() : ""); d += "]"; }
    d += " senders:";
    for (auto& s : e.leaf) d += vk::sfmt(" {%s %s ctx%d on_stop=%d}", sr::chan_name(s.chan), s.timing ? "deferred" : "inline", s.ctx, s.on_stop);
    d += vk::sfmt(" stop_at_sender#%ld", e.stop_at_occ);
    cx.desc = d;
  }
  SR_TR("case: %s", cx.desc.c_str());


  // ---- real run
  bool stop_hit_inflight = false;
  {
    auto op = unifex::connect(run_node(0), RootR{});
    unifex::start(op);
    for (int step = 0; step < 3000; ++step) {
      if (e.pending.empty()) break;
      // stop while the chosen sender occurrence is in flight: request it before any further event is delivered
      if (!e.stop_requested && e.stop_at_occ >= 0) {
        bool hit = false; for (auto& p : e.pending) if (p.kind == 0 && p.occ == e.stop_at_occ && !e.runs[(size_t)p.occ].in_cleanup) hit = true;
        if (hit) {
          e.stop_requested = true; stop_hit_inflight = true; SR_TR("driver: request_stop() while sender#%ld is in flight", e.stop_at_occ);
          e.t_stop_begin = ++e.seq; e.ss.request_stop();
          // a task forwards a stop request to what it awaits through its scheduler (task.hpp deferred_stop_request): run the items the request enqueued
          for (int guard = 0; guard < 50; ++guard) {
            size_t i = 0; while (i < e.pending.size() && e.pending[i].kind != 2) ++i;
            if (i == e.pending.size()) break;
            Pending pe = e.pending[i]; e.pending.erase(e.pending.begin() + (long)i);
            SR_TR("driver: run the scheduler item enqueued by the stop request"); pe.fire(pe.op, pe.kind);
          }
          e.t_stop_end = ++e.seq;
          auto& run = e.runs[(size_t)e.stop_at_occ];
          if (run.t_stop_seen < 0 || run.t_stop_seen > e.t_stop_end) SR_FAIL(P, "stop_not_delivered", "a stop request on the task's receiver, and the scheduler items it enqueued having run, did not reach the sender the task is awaiting (sender #%ld is in flight)", e.stop_at_occ);
          continue;
        }
      }
      size_t k = c.upto((uint32_t)e.pending.size());
      Pending pe = e.pending[k]; e.pending.erase(e.pending.begin() + (long)k);
      SR_TR("driver: fire %s", pe.kind == 0 ? "sender completion" : pe.kind == 1 ? "sender done-after-stop" : pe.kind == 2 ? "context item" : "awaitable resumption");
      pe.fire(pe.op, pe.kind);
    }
    if (e.root_signals == 0 && !cx.failed) SR_FAIL(P, "lost_completion", "nothing is pending any more but the task never completed its receiver");
  }
  const bool model_valid = true;
  // ---- reference run (after the real one: see Model::leaf for the two observations it borrows)
  std::vector<Ev> real_body; for (auto& x : e.trace) if (is_body(x.kind)) real_body.push_back(x);
  Model m(e); m.real_body = &real_body; MOut want = m.run(0, -1);
  if (m.observed_used) cx.label("stop-visibility-below-a-sender-connected-task-taken-from-the-run");
  if (!cx.failed && model_valid) {
    // 1. body event sequence
    std::vector<Ev> body; for (auto& x : e.trace) if (is_body(x.kind)) body.push_back(x);
    size_t n = std::min(body.size(), m.body.size()); size_t diff = n;
    for (size_t i = 0; i < n; ++i) if (body[i].kind != m.body[i].kind || body[i].frame != m.body[i].frame || body[i].a != m.body[i].a) { diff = i; break; }
    if (diff < n || body.size() != m.body.size()) {
      std::string got = diff < body.size() ? vk::sfmt("frame%d %s %ld", body[diff].frame, ev_name(body[diff].kind), body[diff].a) : "(nothing more)";
      std::string exp = diff < m.body.size() ? vk::sfmt("frame%d %s %ld", m.body[diff].frame, ev_name(m.body[diff].kind), m.body[diff].a) : "(nothing more)";
      SR_FAIL(P, "body_sequence", "event %zu of the coroutine bodies: observed [%s], the program prescribes [%s]", diff, got.c_str(), exp.c_str());
    }
    // 2. result
    if (!cx.failed && e.root_signals == 1) {
      if (e.root_chan != want.chan) SR_FAIL(P, "result_channel", "the task completed with %s, the program prescribes %s", sr::chan_name(e.root_chan), sr::chan_name(want.chan));
      else if (want.chan == VALUE && e.root_val != want.val) SR_FAIL(P, "result_value", "the task completed with value %ld, the program returns %ld", e.root_val, want.val);
      else if (want.chan == ERROR && e.root_err != want.err) SR_FAIL(P, "result_error", "the task completed with error %ld, the escaped exception is %ld", e.root_err, want.err);
    }
  }
  // 3. frames: locals destroyed once, cleanup actions once, reverse order, inside the window
  if (!cx.failed && e.root_signals == 1) {
    int nframes = e.next_frame;
    std::vector<int> parent((size_t)nframes, -1);
    if (model_valid) for (int f = 0; f < nframes && f < (int)m.frames.size(); ++f) parent[(size_t)f] = m.frames[(size_t)f].parent;
    for (int f = 0; f < nframes && !cx.failed; ++f) {
      long t_last_body = -1; int dtors = 0; std::vector<std::pair<long, long>> cl; long t_first_exit = -1, t_last_exit = -1;
      std::vector<int> registered;
      for (auto& x : e.trace) if (x.frame == f) {
        if (is_body(x.kind)) t_last_body = x.t;
        if (x.kind == E_LOCALS_DTOR) { dtors++; if (t_first_exit < 0) t_first_exit = x.t; t_last_exit = x.t; }
        if (x.kind == E_CLEANUP_RUN) { cl.push_back({x.t, x.a}); if (t_first_exit < 0) t_first_exit = x.t; t_last_exit = x.t; }
      }
      if (dtors != 1) { SR_FAIL(P, "locals_destroyed", "the locals of coroutine frame %d were destroyed %d time(s)", f, dtors); break; }
      // registered cleanups: from the program, those whose at_coroutine_exit step was reached = every S_CLEANUP step before the frame's exit point; use the model when valid
      if (model_valid && f < (int)m.frames.size()) {
        auto& want_cl = m.frames[(size_t)f].cleanups;
        std::vector<long> got; for (auto& p : cl) got.push_back(p.second);
        std::vector<long> exp(want_cl.rbegin(), want_cl.rend());
        if (got != exp) {
          std::string g, x2; for (long v : got) g += vk::sfmt("#%ld ", v); for (long v : exp) x2 += vk::sfmt("#%ld ", v);
          SR_FAIL(P, "cleanup_actions", "frame %d registered cleanup actions that must run exactly once in reverse order [%s]; observed [%s]", f, x2.c_str(), g.c_str()); break;
        }
      } else {
        std::set<long> seen; for (auto& p : cl) if (!seen.insert(p.second).second) { SR_FAIL(P, "cleanup_actions", "cleanup action #%ld of frame %d ran twice", p.second, f); break; }
      }
      if (t_first_exit >= 0 && t_first_exit < t_last_body) SR_FAIL(P, "exit_before_body_end", "frame %d: locals were destroyed / a cleanup action ran (t=%ld) before the frame's last body event (t=%ld)", f, t_first_exit, t_last_body);
      // before the parent's next event and before the final result
      // cleanup actions run before the final result; the frame itself (its locals) may live until the operation state is destroyed when the task ended with done
      for (auto& pc : cl) if (pc.first > e.t_root) SR_FAIL(P, "cleanup_after_result", "frame %d: cleanup action #%ld ran at t=%ld, after the task's receiver was completed (t=%ld)", f, pc.second, pc.first, e.t_root);
      if (t_last_exit > e.t_root && e.root_chan != DONE) SR_FAIL(P, "frame_outlives_result", "frame %d: locals destroyed at t=%ld after the task's receiver was completed with %s (t=%ld)", f, t_last_exit, sr::chan_name(e.root_chan), e.t_root);
      // ... and before any ancestor's coroutine body continues (an ancestor that is itself being unwound is not resumed: its own exit events are not ordered against ours)
      std::set<int> anc; for (int p = parent[(size_t)f]; p >= 0; p = parent[(size_t)p]) anc.insert(p);
      for (auto& x : e.trace) if (x.t > t_last_body && is_body(x.kind) && anc.count(x.frame)) {
        if (x.t < t_last_exit) SR_FAIL(P, "parent_resumed_before_cleanup", "frame %d (an ancestor of frame %d) continued (%s at t=%ld) before frame %d had finished destroying its locals and running its cleanup actions (t=%ld)", x.frame, f, ev_name(x.kind), x.t, f, t_last_exit);
        break;
      }
    }
  }
  {
    std::string dg = vk::sfmt("root=%d:%ld:%ld@%d |", e.root_chan, e.root_val, e.root_err, e.root_signals);
    for (auto& x : e.trace) dg += vk::sfmt(" %d.%d.%ld", x.kind, x.frame, x.a);
    for (size_t i = 0; i < e.runs.size(); ++i) dg += vk::sfmt(" r%zu:%d%d%d", i, e.runs[i].chan, (int)e.runs[i].stopped_at_start, (int)(e.runs[i].t_stop_seen >= 0));
    cx.digest = dg;
  }
  if (!cx.failed && e.frame_args != 0) SR_FAIL(P, "coroutine_frame_leaked", "%ld coroutine frame(s) (their by-value arguments) were never destroyed although the task's operation state has been destroyed", e.frame_args);
  if (!cx.failed && !e.live_ops.empty()) SR_FAIL(P, "awaited_op_leaked", "%zu awaited operation state(s) were never destroyed", e.live_ops.size());
  bool by_exc = false, by_done = false;
  if (model_valid) { if (want.chan == ERROR) by_exc = true; if (want.chan == DONE) by_done = true; for (auto& x : m.body) if (x.kind == E_CATCH) by_exc = true; for (auto& x : m.body) if (x.kind == E_RESUME && x.a == -5) by_done = true; }
  cx.nontrivial = e.next_frame >= 2 && any_cleanup && (by_exc || by_done || stop_hit_inflight);
  if (!model_valid) cx.label("model-off(stop planned for an occurrence that was never in flight)");
  if (by_exc) cx.label("frame-left-by-exception");
  if (by_done) cx.label("frame-left-by-done");
  if (stop_hit_inflight) cx.label("stop-delivered-to-awaited-sender");
  g_env = nullptr;
}
