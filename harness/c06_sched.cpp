// C06 — execution contexts run every scheduled item exactly once, on their own
// threads, losing none when enqueueing races with the worker going idle / waking
// up / being stopped; single-threaded loops are FIFO; destructors join.
// Schedule-controlled part (detsched): single_thread_context, manual_event_loop
// with an explicit run() thread and stop(), static_thread_pool(k),
// new_thread_context.  Sequential part: inline_scheduler, trampoline_scheduler.
#include "kit/case.hpp"
#include "kit/dk.hpp"

#include <unifex/inline_scheduler.hpp>
#include <unifex/manual_event_loop.hpp>
#include <unifex/any_scheduler.hpp>
#include <unifex/new_thread_context.hpp>
#include <unifex/timed_single_thread_context.hpp>
#include <unifex/scheduler_concepts.hpp>
#include <unifex/single_thread_context.hpp>
#include <unifex/static_thread_pool.hpp>
#include <unifex/trampoline_scheduler.hpp>

#include <thread>

using namespace unifex;

namespace {
const char* P = "C06";

struct Item {
  int producer = 0; int seq = 0;            // per-producer sequence number
  int stop_mode = 0;                        // 0 none, 1 stop requested before start, 2 by the stopper thread
  long t_start_begin = -1, t_start_end = -1, t_done = -1, t_stop = -1;
  int signals = 0; int chan = dk::NONE; int thread = -1; int depth = 0;
  std::unique_ptr<inplace_stop_source> src;
};

struct World {
  std::vector<Item> items;
  std::vector<int> harness_threads;         // threads created by the harness itself (main, producers, stopper)
  int nesting = 0, max_nesting = 0;         // trampoline
};
World* g_w;

struct Rcv {
  int id;
  void done(int chan) noexcept {
    Item& it = g_w->items[(size_t)id];
    it.signals++;
    if (it.signals > 1) { vk::ctx().fail("C01", "double_completion", "schedule() item #%d completed %d times", id, it.signals); return; }
    it.chan = chan; it.t_done = dk::tick(); it.thread = detsched::current_thread();
    vk::ctx().tr("#%ld item #%d (producer %d/%d) completes with %s on T%d", it.t_done, id, it.producer, it.seq, dk::chan_name(chan), it.thread);
    detsched::step();
  }
  void set_value() && noexcept { done(dk::VALUE); }
  template <class E> void set_error(E&&) && noexcept { done(dk::ERROR); }
  void set_done() && noexcept { done(dk::DONE); }
  friend inplace_stop_token tag_invoke(tag_t<get_stop_token>, const Rcv& r) noexcept {
    Item& it = g_w->items[(size_t)r.id];
    return it.src ? it.src->get_token() : inplace_stop_token{};
  }
};

struct Script {
  int ctx = 0;            // 0 single_thread_context, 1 manual_event_loop+explicit run thread, 2 static_thread_pool, 3 new_thread_context
  int pool_threads = 2;
  int P = 1;
  std::vector<std::vector<int>> prod;   // item ids per producer
  std::vector<Item> proto;
  std::vector<std::pair<int, int>> stops;
  int variant = 0;                      // 0 plain; 1 the scheduler wrapped in any_scheduler (ctx 0, 2); 2 timed_single_thread_context's schedule() instead of single_thread_context (ctx 0)
  bool wait_all = false;                // wait until every started item has completed before shutting down (exposes lost wake-ups)
  int shutdown_yields = 0;              // how long the main thread waits (in yields) after the last start() before stopping / destroying
};

Script decode(vk::Choice& c) {
  Script s;
  s.ctx = (int)c.upto(4);
  s.pool_threads = 1 + (int)c.upto(3);
  s.P = 1 + (int)c.upto(3);
  s.prod.resize((size_t)s.P);
  for (int p = 0; p < s.P; ++p) {
    int n = (int)c.upto(s.ctx == 3 ? 4 : 7);
    for (int k = 0; k < n; ++k) {
      Item it; it.producer = p; it.seq = k;
      unsigned m = c.upto(12);
      it.stop_mode = m < 9 ? 0 : m < 10 ? 1 : 2;
      s.prod[(size_t)p].push_back((int)s.proto.size());
      s.proto.push_back(std::move(it));
    }
  }
  for (size_t i = 0; i < s.proto.size(); ++i) if (s.proto[i].stop_mode == 2) s.stops.emplace_back((int)i, (int)c.upto(10));
  s.shutdown_yields = (int)c.upto(6);
  s.wait_all = c.flag();
  // derived from the hash (no bytes consumed; --legacy=1 keeps recorded byte strings on the plain variant)
  if (vk::ctx().argi("legacy", 0) == 0) { uint64_t h = c.h; if (h % 4 == 1 && (s.ctx == 0 || s.ctx == 2)) s.variant = 1; else if (h % 4 == 2 && s.ctx == 0) s.variant = 2; c.mix((uint64_t)s.variant + 11); }
  return s;
}

std::string describe(const Script& s) {
  static const char* cn[] = {"single_thread_context", "manual_event_loop+run()+stop()", "static_thread_pool", "new_thread_context"};
  std::string d = vk::sfmt("%s%s%s, %d producers:", s.variant == 2 ? "timed_single_thread_context" : cn[s.ctx], s.ctx == 2 ? vk::sfmt("(%d)", s.pool_threads).c_str() : "", s.variant == 1 ? " through any_scheduler" : "", s.P);
  for (int p = 0; p < s.P; ++p) {
    d += vk::sfmt(" P%d[", p);
    for (int i : s.prod[(size_t)p]) d += vk::sfmt("#%d%s ", i, s.proto[(size_t)i].stop_mode == 1 ? ":pre-stopped" : s.proto[(size_t)i].stop_mode == 2 ? ":stopper" : "");
    d += "]";
  }
  d += vk::sfmt(" shutdown-after-%d-yields%s", s.shutdown_yields, s.wait_all ? " (after waiting for all items)" : "");
  return d;
}

template <class Sched>
void produce(World& W, const Script& sc, Sched sched, std::vector<std::thread>& producers, std::vector<std::unique_ptr<dk::OpBox<connect_result_t<decltype(schedule(std::declval<Sched&>())), Rcv>>>>& boxes) {
  using Op = connect_result_t<decltype(schedule(sched)), Rcv>;
  boxes.resize(W.items.size());
  for (int p = 0; p < sc.P; ++p) {
    producers.emplace_back([&W, &sc, sched, p, &boxes]() mutable {
      W.harness_threads.push_back(detsched::current_thread());
      for (int id : sc.prod[(size_t)p]) {
        Item& it = W.items[(size_t)id];
        boxes[(size_t)id] = std::make_unique<dk::OpBox<Op>>();
        boxes[(size_t)id]->emplace(schedule(sched), Rcv{id});
        it.t_start_begin = dk::tick();
        start(*boxes[(size_t)id]->op);
        it.t_start_end = dk::tick();
        detsched::step();
      }
    });
  }
}

void check_items(World& W, const Script& sc, int first_ctx_thread, int last_ctx_thread_excl, const std::vector<int>& non_ctx_threads, bool fifo) {
  auto& cx = vk::ctx();
  for (size_t i = 0; i < W.items.size(); ++i) {
    Item& it = W.items[i];
    if (it.t_start_begin < 0) continue;
    if (it.signals != 1) { cx.fail(P, "item_lost", "schedule() item #%zu was started but completed %d times although the context was drained and joined", i, it.signals); continue; }
    if (it.chan == dk::ERROR) cx.fail(P, "unexpected_error", "item #%zu completed with an error", i);
    if (it.chan == dk::DONE && it.t_stop < 0) cx.fail(P, "done_without_stop", "item #%zu completed with done although stop was never requested on its token", i);
    if (it.chan == dk::VALUE && it.stop_mode == 1) cx.fail(P, "value_despite_stop", "item #%zu completed with value although stop had been requested before start()", i);
    // every thread of the run that the harness did not create itself was created by the context
    bool on_ctx = it.thread != 0;
    for (int t : W.harness_threads) if (it.thread == t) on_ctx = false;
    if (it.chan == dk::VALUE && !on_ctx) cx.fail(P, "wrong_thread", "item #%zu completed with value on thread T%d, which was not created by the context (it is the main, a producer or the stopper thread)", i, it.thread);
  }
  if (fifo) {
    for (size_t a = 0; a < W.items.size(); ++a) for (size_t b = 0; b < W.items.size(); ++b) {
      Item &A = W.items[a], &B = W.items[b];
      if (a == b || A.signals != 1 || B.signals != 1) continue;
      bool a_first = (A.producer == B.producer && A.seq < B.seq) || (A.t_start_end >= 0 && B.t_start_begin >= 0 && A.t_start_end < B.t_start_begin);
      if (a_first && A.t_done > B.t_done) cx.fail(P, "fifo_order", "item #%zu was enqueued before #%zu (start returned at %ld, other began at %ld) but ran after it (%ld > %ld)", a, b, A.t_start_end, B.t_start_begin, A.t_done, B.t_done);
    }
  }
  (void)sc;
}

void run_script(const Script& sc, bool check, bool& nontrivial) {
  auto& cx = vk::ctx();
  World W; g_w = &W;
  dk::clock_ref() = 0;
  for (auto& p : sc.proto) { Item it; it.producer = p.producer; it.seq = p.seq; it.stop_mode = p.stop_mode; if (it.stop_mode) it.src = std::make_unique<inplace_stop_source>(); W.items.push_back(std::move(it)); }
  for (auto& it : W.items) if (it.stop_mode == 1) { it.t_stop = dk::tick(); it.src->request_stop(); }
  std::vector<std::thread> producers;
  std::thread stopper;
  auto start_stopper = [&] {
    if (sc.stops.empty()) return;
    stopper = std::thread([&] {
      W.harness_threads.push_back(detsched::current_thread());
      for (auto& s : sc.stops) {
        for (int k = 0; k < s.second; ++k) detsched::yield_now();
        Item& it = W.items[(size_t)s.first];
        it.t_stop = dk::tick();
        it.src->request_stop();
      }
    });
  };
  auto join_all = [&] {
    for (auto& t : producers) t.join();
    if (stopper.joinable()) stopper.join();
    if (sc.wait_all) dk::wait_for([&] { for (auto& it : W.items) if (it.t_start_begin >= 0 && it.signals == 0) return false; return true; });
  };
  int threads_before = detsched::thread_count();
  std::vector<int> non_ctx;
  int first = threads_before, last = 0;
  bool fifo = false;

  if (sc.ctx == 0 && sc.variant == 2) {
    std::vector<std::unique_ptr<dk::OpBox<connect_result_t<decltype(schedule(std::declval<timed_single_thread_context&>().get_scheduler())), Rcv>>>> boxes;
    {
      timed_single_thread_context ctx;
      last = detsched::thread_count();
      produce(W, sc, ctx.get_scheduler(), producers, boxes);
      start_stopper();
      join_all();
      for (int k = 0; k < sc.shutdown_yields; ++k) detsched::yield_now();
      // (a timed context's destructor does not drain: items still queued would be lost by construction, so wait for them first)
      dk::wait_for([&] { for (auto& it : W.items) if (it.t_start_begin >= 0 && it.signals == 0) return false; return true; });
      cx.tr("main: destroying timed_single_thread_context");
    }
    if (detsched::live_threads() != 1) cx.fail(P, "thread_not_joined", "timed_single_thread_context destructor returned but %d thread(s) it created are still alive", detsched::live_threads() - 1);
    for (auto& b : boxes) if (b) b->reset();
  } else if (sc.ctx == 0 && sc.variant == 1) {
    std::vector<std::unique_ptr<dk::OpBox<connect_result_t<decltype(schedule(std::declval<any_scheduler&>())), Rcv>>>> boxes;
    {
      single_thread_context ctx;
      last = detsched::thread_count();
      any_scheduler as = ctx.get_scheduler();
      produce(W, sc, as, producers, boxes);
      start_stopper();
      join_all();
      for (int k = 0; k < sc.shutdown_yields; ++k) detsched::yield_now();
      cx.tr("main: destroying single_thread_context (scheduled through any_scheduler)");
    }
    if (detsched::live_threads() != 1) cx.fail(P, "thread_not_joined", "single_thread_context destructor returned but %d thread(s) it created are still alive", detsched::live_threads() - 1);
    fifo = true;
    for (auto& b : boxes) if (b) b->reset();
  } else if (sc.ctx == 2 && sc.variant == 1) {
    std::vector<std::unique_ptr<dk::OpBox<connect_result_t<decltype(schedule(std::declval<any_scheduler&>())), Rcv>>>> boxes;
    {
      static_thread_pool pool((std::uint32_t)sc.pool_threads);
      last = detsched::thread_count();
      any_scheduler as = pool.get_scheduler();
      produce(W, sc, as, producers, boxes);
      start_stopper();
      join_all();
      for (int k = 0; k < sc.shutdown_yields; ++k) detsched::yield_now();
      cx.tr("main: destroying static_thread_pool (scheduled through any_scheduler)");
    }
    if (detsched::live_threads() != 1) cx.fail(P, "thread_not_joined", "static_thread_pool destructor returned but %d thread(s) it created are still alive", detsched::live_threads() - 1);
    for (auto& b : boxes) if (b) b->reset();
  } else if (sc.ctx == 0) {
    std::vector<std::unique_ptr<dk::OpBox<connect_result_t<decltype(schedule(std::declval<single_thread_context&>().get_scheduler())), Rcv>>>> boxes;
    {
      single_thread_context ctx;
      last = detsched::thread_count();
      produce(W, sc, ctx.get_scheduler(), producers, boxes);
      start_stopper();
      join_all();
      for (int k = 0; k < sc.shutdown_yields; ++k) detsched::yield_now();
      cx.tr("main: destroying single_thread_context");
    }
    if (detsched::live_threads() != 1) cx.fail(P, "thread_not_joined", "single_thread_context destructor returned but %d thread(s) it created are still alive", detsched::live_threads() - 1);
    fifo = true;
    for (auto& b : boxes) if (b) b->reset();
  } else if (sc.ctx == 1) {
    std::vector<std::unique_ptr<dk::OpBox<connect_result_t<decltype(schedule(std::declval<manual_event_loop&>().get_scheduler())), Rcv>>>> boxes;
    manual_event_loop loop;
    std::thread runner([&] { loop.run(); });
    last = detsched::thread_count();
    produce(W, sc, loop.get_scheduler(), producers, boxes);
    start_stopper();
    join_all();
    for (int k = 0; k < sc.shutdown_yields; ++k) detsched::yield_now();
    cx.tr("main: loop.stop()");
    loop.stop();
    runner.join();
    fifo = true;
    for (auto& b : boxes) if (b) b->reset();
  } else if (sc.ctx == 2) {
    std::vector<std::unique_ptr<dk::OpBox<connect_result_t<decltype(schedule(std::declval<static_thread_pool&>().get_scheduler())), Rcv>>>> boxes;
    {
      static_thread_pool pool((std::uint32_t)sc.pool_threads);
      last = detsched::thread_count();
      produce(W, sc, pool.get_scheduler(), producers, boxes);
      start_stopper();
      join_all();
      for (int k = 0; k < sc.shutdown_yields; ++k) detsched::yield_now();
      cx.tr("main: destroying static_thread_pool");
    }
    if (detsched::live_threads() != 1) cx.fail(P, "thread_not_joined", "static_thread_pool destructor returned but %d thread(s) it created are still alive", detsched::live_threads() - 1);
    for (auto& b : boxes) if (b) b->reset();
  } else {
    std::vector<std::unique_ptr<dk::OpBox<connect_result_t<decltype(schedule(std::declval<new_thread_context&>().get_scheduler())), Rcv>>>> boxes;
    {
      new_thread_context ctx;
      produce(W, sc, ctx.get_scheduler(), producers, boxes);
      for (int p = 0; p < sc.P; ++p) non_ctx.push_back(threads_before + p);
      start_stopper();
      if (!sc.stops.empty()) non_ctx.push_back(threads_before + sc.P);
      join_all();
      for (int k = 0; k < sc.shutdown_yields; ++k) detsched::yield_now();
      cx.tr("main: destroying new_thread_context");
    }
    last = detsched::thread_count();
    if (detsched::live_threads() != 1) cx.fail(P, "thread_not_joined", "new_thread_context destructor returned but %d thread(s) it created are still alive", detsched::live_threads() - 1);
    for (auto& b : boxes) if (b) b->reset();
  }
  if (!check) { g_w = nullptr; return; }
  check_items(W, sc, first, last, non_ctx, fifo);
  // non-trivial: >=2 producers with items, or shutdown within a few steps of the last enqueue
  int active_producers = 0; for (auto& v : sc.prod) if (!v.empty()) active_producers++;
  nontrivial = active_producers >= 2 || (!sc.proto.empty() && sc.shutdown_yields <= 1);
  g_w = nullptr;
}

// ------------------------------------------------------------------ sequential schedulers
struct R {
  std::function<void()>* k;
  void set_value() && noexcept { (*k)(); }
  template <class E> void set_error(E&&) && noexcept { vk::ctx().fail(P, "unexpected_error", "trampoline/inline schedule completed with error"); }
  void set_done() && noexcept { vk::ctx().fail(P, "unexpected_done", "trampoline/inline schedule completed with done (no stop token)"); }
};
void seq_case(vk::Choice& c) {
  auto& cx = vk::ctx();
  bool tramp = c.flag();
  int depth = 1 + (int)c.upto(20);
  int chain = (int)c.upto(tramp ? 400 : 60);
  int fanout = 1 + (int)c.upto(2);
  cx.desc = vk::sfmt("%s depth=%d chain=%d fanout=%d", tramp ? "trampoline_scheduler" : "inline_scheduler", depth, chain, fanout);
  cx.nontrivial = tramp && chain > depth;
  World W; g_w = &W;
  // a chain (or small tree) of nested schedule() operations, each started from inside the previous completion
  struct Node;
  long started = 0, completed = 0; int nesting = 0, max_nesting = 0; bool outer_returned = false; long completed_after_return = 0;
  trampoline_scheduler ts((std::size_t)depth);
  std::function<void(int)> launch;
  std::vector<std::unique_ptr<std::function<void()>>> conts;
  std::vector<std::function<void()>> cleanup;
  launch = [&](int remaining) {
    if (remaining <= 0) return;
    for (int f = 0; f < (remaining == chain ? 1 : fanout) && started < chain; ++f) {
      started++;
      conts.push_back(std::make_unique<std::function<void()>>());
      auto* k = conts.back().get();
      *k = [&, remaining] {
        nesting++; if (nesting > max_nesting) max_nesting = nesting;
        completed++;
        if (outer_returned) completed_after_return++;
        launch(remaining - 1);
        nesting--;
      };
      if (tramp) {
        using Op = connect_result_t<decltype(schedule(ts)), R>;
        auto* box = new dk::OpBox<Op>(); box->emplace(schedule(ts), R{k});
        cleanup.push_back([box] { delete box; });
        start(*box->op);
      } else {
        inline_scheduler is;
        using Op = connect_result_t<decltype(schedule(is)), R>;
        auto* box = new dk::OpBox<Op>(); box->emplace(schedule(is), R{k});
        cleanup.push_back([box] { delete box; });
        start(*box->op);
      }
    }
  };
  launch(chain);
  outer_returned = true;
  for (auto& f : cleanup) f();
  if (completed != started) cx.fail(P, "item_lost", "%ld nested schedule() operations started but %ld completed by the time the outermost start() returned", started, completed);
  if (tramp && max_nesting > depth) cx.fail(P, "trampoline_depth", "trampoline_scheduler(depth %d) nested %d completions on the stack", depth, max_nesting);
  cx.label(tramp ? "trampoline" : "inline");
  g_w = nullptr;
}

}  // namespace

extern "C" const char* vk_harness_name() { return "c06_sched"; }
const char* vk_nontrivial_rule() {
  return "detsched scripts: context in {single_thread_context, manual_event_loop with explicit run()/stop(), static_thread_pool(1-3), new_thread_context} x 1-3 producer threads x 0-6 schedule() items each, "
         "per-item stop {none, before start, by a stopper thread}, shutdown (stop()/destructor) after 0-5 yields following the last start(); plus sequential inline/trampoline chains and trees (depth 1-20, up to 400 nested items). "
         "non-trivial = >=2 producers with items or shutdown within one yield of the last enqueue (detsched), trampoline chain longer than its depth (sequential); distinct = hash of decoded script + schedule";
}

void vk_run_case(vk::Choice& c) {
  auto& cx = vk::ctx();
  if (c.upto(6) == 0) { seq_case(c); return; }
  Script sc = decode(c);
  cx.desc = describe(sc);
  bool nt = false;
  detsched::Options o; o.max_steps = 40000;
  auto res = detsched::run(c, o, [&] { bool dry = detsched::in_dry_run(); bool ig = false; run_script(sc, !dry, dry ? ig : nt); });
  cx.desc += " | " + res.schedule;
  cx.nontrivial = nt && !res.inconclusive;
  cx.label(vk::sfmt("ctx%d", sc.ctx)); if (sc.variant == 1) cx.label("through-any_scheduler"); if (sc.variant == 2) cx.label("timed_single_thread_context");
  if (res.inconclusive) cx.label("inconclusive(step budget)");
  if (res.preemptions) cx.label("preempted");
}
