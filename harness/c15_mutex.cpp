// C15 — async_mutex (v1 and v2) under schedule control: mutual exclusion, no
// lost waiter, cancelled waiters never own the lock, FIFO hand-off (v2).
#include "kit/case.hpp"
#include "kit/dk.hpp"

#include <unifex/v1/async_mutex.hpp>
#include <unifex/v2/async_mutex.hpp>

#include <thread>

using namespace unifex;

namespace {
const char* P = "C15";

struct OpRec {            // one async_lock attempt
  int thread = 0; int kind = 0;        // 0 async_lock, 1 try_lock
  int stop_mode = 0;                   // 0 none, 1 stopped before start, 2 by stopper thread
  long t_start_begin = -1, t_start_end = -1, t_grant = -1, t_done = -1, t_release = -1, t_stop_req = -1;
  int signals = 0; int chan = dk::NONE; int grant_ctx = -1;
  bool queued = false;                 // start() returned before completion
  bool try_ok = false;
  std::unique_ptr<inplace_stop_source> src;
};

struct World {
  int holder = -1; int max_in_cs = 0; int in_cs = 0;
  std::vector<OpRec> ops;
  dk::DCtx ctx; bool use_ctx = false;
};

template <class Sched>
struct LockRecv {
  World* w; int id; Sched sched;
  void set_value() && noexcept {
    auto& o = w->ops[(size_t)id];
    o.signals++;
    if (o.signals > 1) { vk::ctx().fail("C01", "double_completion", "async_lock #%d completed twice", id); return; }
    o.chan = dk::VALUE; o.t_grant = dk::tick(); o.grant_ctx = dk::current_ctx();
    if (w->holder != -1) vk::ctx().fail(P, "mutual_exclusion", "async_lock #%d completed with value while #%d still holds the mutex", id, w->holder);
    w->holder = id;
    vk::ctx().tr("#%ld lock #%d (T%d) GRANTED on thread T%d", o.t_grant, id, o.thread, detsched::current_thread());
    detsched::step();
  }
  template <class E> void set_error(E&&) && noexcept {
    auto& o = w->ops[(size_t)id]; o.signals++; o.chan = dk::ERROR; o.t_done = dk::tick();
    vk::ctx().fail(P, "unexpected_error", "async_lock #%d completed with an error", id);
  }
  void set_done() && noexcept {
    auto& o = w->ops[(size_t)id];
    o.signals++;
    if (o.signals > 1) { vk::ctx().fail("C01", "double_completion", "async_lock #%d completed twice", id); return; }
    o.chan = dk::DONE; o.t_done = dk::tick(); o.grant_ctx = dk::current_ctx();
    vk::ctx().tr("#%ld lock #%d (T%d) DONE (cancelled) on thread T%d", o.t_done, id, o.thread, detsched::current_thread());
    detsched::step();
  }
  friend inplace_stop_token tag_invoke(tag_t<get_stop_token>, const LockRecv& r) noexcept {
    auto& o = r.w->ops[(size_t)r.id];
    return o.src ? o.src->get_token() : inplace_stop_token{};
  }
  friend Sched tag_invoke(tag_t<get_scheduler>, const LockRecv& r) noexcept { return r.sched; }
};

struct Script {
  int variant = 2; int T = 2; bool use_ctx = false;
  std::vector<std::vector<int>> thread_ops;  // indices into ops
  std::vector<OpRec> proto;
  std::vector<std::pair<int, int>> stops;    // (op index, yields before the request) executed by the stopper thread
  int cs_steps = 1;
};

Script decode(vk::Choice& c) {
  Script s;
  s.variant = c.upto(3) == 0 ? 1 : 2;
  s.T = 2 + (int)c.upto(3);
  s.use_ctx = s.variant == 2 && c.chance(1, 3);
  s.cs_steps = (int)c.upto(3);
  s.thread_ops.resize((size_t)s.T);
  for (int t = 0; t < s.T; ++t) {
    int n = 1 + (int)c.upto(3);
    for (int k = 0; k < n; ++k) {
      OpRec o; o.thread = t; o.kind = c.chance(1, 5) ? 1 : 0;
      if (s.variant == 2 && o.kind == 0) {
        unsigned m = c.upto(10);
        o.stop_mode = m < 6 ? 0 : m < 7 ? 1 : 2;
      }
      s.thread_ops[(size_t)t].push_back((int)s.proto.size());
      s.proto.push_back(std::move(o));
    }
  }
  for (size_t i = 0; i < s.proto.size(); ++i) if (s.proto[i].stop_mode == 2) s.stops.emplace_back((int)i, (int)c.upto(12));
  return s;
}

std::string describe(const Script& s) {
  std::string d = vk::sfmt("async_mutex v%d, %d threads, scheduler=%s, cs_steps=%d:", s.variant, s.T, s.use_ctx ? "worker-context" : "inline", s.cs_steps);
  for (int t = 0; t < s.T; ++t) {
    d += vk::sfmt(" T%d[", t + 1);
    for (int i : s.thread_ops[(size_t)t]) { auto& o = s.proto[(size_t)i]; d += vk::sfmt("#%d:%s%s ", i, o.kind ? "try_lock" : "async_lock", o.stop_mode == 1 ? "(pre-stopped)" : o.stop_mode == 2 ? "(stopped-by-stopper)" : ""); }
    d += "]";
  }
  if (!s.stops.empty()) { d += " stopper["; for (auto& p : s.stops) d += vk::sfmt("#%d after %d yields ", p.first, p.second); d += "]"; }
  return d;
}

template <class Mutex, class Sched>
void run_script(const Script& sc, bool check, bool& nontrivial, Sched sched_for_receivers, World& W) {
  auto& cx = vk::ctx();
  Mutex m;
  dk::clock_ref() = 0;
  W.ops.clear();
  for (auto& p : sc.proto) { OpRec o; o.thread = p.thread; o.kind = p.kind; o.stop_mode = p.stop_mode; if (sc.variant == 2 && o.kind == 0) o.src = std::make_unique<inplace_stop_source>(); W.ops.push_back(std::move(o)); }
  for (auto& o : W.ops) if (o.stop_mode == 1) { o.t_stop_req = dk::tick(); o.src->request_stop(); }

  std::vector<std::thread> th;
  std::thread worker;
  if (sc.use_ctx) worker = std::thread([&W] { W.ctx.run(); });
  for (int t = 0; t < sc.T; ++t) {
    th.emplace_back([&, t] {
      for (int id : sc.thread_ops[(size_t)t]) {
        OpRec& o = W.ops[(size_t)id];
        detsched::step();
        if (o.kind == 1) {
          o.t_start_begin = dk::tick();
          bool ok = m.try_lock();
          o.t_start_end = dk::tick();
          o.try_ok = ok;
          if (ok) {
            if (W.holder != -1) cx.fail(P, "mutual_exclusion", "try_lock #%d succeeded while #%d holds the mutex", id, W.holder);
            W.holder = id; o.t_grant = dk::tick(); o.chan = dk::VALUE;
            cx.tr("#%ld try_lock #%d (T%d) succeeded", o.t_grant, id, t + 1);
          } else { o.chan = dk::NONE; continue; }
        } else {
          using Op = connect_result_t<decltype(m.async_lock()), LockRecv<Sched>>;
          dk::OpBox<Op> box;
          box.emplace(m.async_lock(), LockRecv<Sched>{&W, id, sched_for_receivers});
          o.t_start_begin = dk::tick();
          cx.tr("#%ld lock #%d (T%d) start()", o.t_start_begin, id, t + 1);
          start(*box.op);
          o.t_start_end = dk::tick();
          o.queued = o.signals == 0;
          dk::wait_for([&] { return o.signals > 0; });
          box.reset();
          if (o.chan != dk::VALUE) continue;
        }
        // critical section
        W.in_cs++; if (W.in_cs > W.max_in_cs) W.max_in_cs = W.in_cs;
        if (W.in_cs > 1) cx.fail(P, "mutual_exclusion", "two parties inside the critical section");
        for (int k = 0; k < sc.cs_steps; ++k) detsched::step();
        W.in_cs--;
        if (W.holder != id) cx.fail(P, "mutual_exclusion", "holder changed to #%d while #%d was inside the critical section", W.holder, id);
        W.holder = -1;
        o.t_release = dk::tick();
        cx.tr("#%ld #%d (T%d) unlock()", o.t_release, id, t + 1);
        m.unlock();
      }
    });
  }
  std::thread stopper;
  if (!sc.stops.empty()) stopper = std::thread([&] {
    for (auto& p : sc.stops) {
      for (int k = 0; k < p.second; ++k) detsched::yield_now();
      OpRec& o = W.ops[(size_t)p.first];
      o.t_stop_req = dk::tick();
      cx.tr("#%ld stopper: request_stop on lock #%d", o.t_stop_req, p.first);
      o.src->request_stop();
    }
  });
  for (auto& t : th) t.join();
  if (stopper.joinable()) stopper.join();
  if (sc.use_ctx) { W.ctx.request_stop(); worker.join(); }
  if (dk::graveyard().parked) { cx.label("op-memory-kept-until-end(known finding)"); dk::graveyard().parked = 0; }
  dk::free_graveyard();
  // the lock must be free again
  bool free_now = m.try_lock();
  if (!free_now) cx.fail(P, "lock_leaked", "every holder unlocked but the mutex is still locked at the end (a cancelled or completed waiter kept it)");
  else m.unlock();
  if (!check) return;

  for (size_t i = 0; i < W.ops.size(); ++i) {
    OpRec& o = W.ops[i];
    if (o.kind == 1) continue;
    if (o.signals != 1) cx.fail("C01", "completion_count", "async_lock #%zu completed %d times", i, o.signals);
    if (o.chan == dk::DONE && o.t_stop_req < 0) cx.fail(P, "done_without_stop", "async_lock #%zu completed with done although its stop token never fired", i);
    if (o.stop_mode == 1 && o.chan != dk::DONE) cx.fail(P, "prestopped_got_lock", "async_lock #%zu was started with stop already requested but completed with %s", i, dk::chan_name(o.chan));
    if (sc.use_ctx && o.signals == 1 && o.grant_ctx != W.ctx.id) cx.fail("C11", "completion_context", "async_lock #%zu completed on context %d, not on its receiver's scheduler (context %d)", i, o.grant_ctx, W.ctx.id);
  }
  // FIFO hand-off among queued, never-cancelled waiters whose start() calls did not overlap
  bool contention = false, stop_hit_waiter = false;
  for (size_t a = 0; a < W.ops.size(); ++a) for (size_t b = 0; b < W.ops.size(); ++b) {
    OpRec &A = W.ops[a], &B = W.ops[b];
    if (a == b || A.kind || B.kind) continue;
    if (A.queued && B.queued) contention = true;
    if (!(A.queued && B.queued && A.chan == dk::VALUE && B.chan == dk::VALUE && A.t_stop_req < 0 && B.t_stop_req < 0)) continue;
    if (A.t_start_end < B.t_start_begin && A.t_grant > B.t_grant) {
      // "queued" means: start() returned before the completion.  With the worker-context scheduler every grant is delivered through a
      // scheduler hop, so an async_lock that took the free mutex on its fast path (never a waiter) also looks queued; such a newcomer may
      // legitimately get the mutex ahead of a waiter that enqueued while the previous holder was releasing.  The order oracle therefore
      // needs the inline scheduler, where a fast-path acquisition completes inside start().
      if (sc.variant == 2 && !sc.use_ctx) cx.fail(P, "fifo_order", "async_lock #%zu queued (start returned at %ld) before #%zu began to start (%ld) but was granted later (%ld > %ld)", a, A.t_start_end, b, B.t_start_begin, A.t_grant, B.t_grant);
      else cx.label("v1-non-fifo-grant(observed, not asserted)");
    }
  }
  for (auto& o : W.ops) { if (o.queued) contention = true; if (o.queued && o.t_stop_req >= 0) stop_hit_waiter = true; }
  nontrivial = contention;
  if (contention) cx.label("contended");
  if (stop_hit_waiter) cx.label("stop-on-queued-waiter");
  for (auto& o : W.ops) if (o.chan == dk::DONE) { cx.label("waiter-cancelled"); break; }
}

}  // namespace

extern "C" const char* vk_harness_name() { return "c15_mutex"; }
const char* vk_nontrivial_rule() {
  return "scripts: async_mutex v1 or v2, 2-4 locker threads x 1-3 operations {async_lock, try_lock}, critical sections with scheduling points, "
         "v2: per-lock stop {none, before start, by a stopper thread after k yields}, receivers' scheduler inline or a worker context; "
         "schedule decoded from the same bytes (detsched). non-trivial = at least one async_lock had to queue (contention); distinct = hash of decoded script+schedule";
}

void vk_run_case(vk::Choice& c) {
  auto& cx = vk::ctx();
  Script sc = decode(c);
  cx.desc = describe(sc);
  bool nt = false;
  detsched::Options o; o.max_steps = 40000;
  auto res = detsched::run(c, o, [&] {
    World W; W.use_ctx = sc.use_ctx; W.ctx.id = 5;
    bool dry = detsched::in_dry_run(); bool ignore = false;
    if (sc.variant == 1) run_script<unifex::v1::async_mutex>(sc, !dry, dry ? ignore : nt, inline_scheduler{}, W);
    else if (sc.use_ctx) run_script<unifex::v2::async_mutex>(sc, !dry, dry ? ignore : nt, W.ctx.get_scheduler(), W);
    else run_script<unifex::v2::async_mutex>(sc, !dry, dry ? ignore : nt, inline_scheduler{}, W);
  });
  cx.desc += " | " + res.schedule;
  cx.nontrivial = nt && !res.inconclusive;
  cx.label(vk::sfmt("v%d", sc.variant));
  if (res.inconclusive) cx.label("inconclusive(step budget)");
  if (res.preemptions) cx.label("preempted");
}
