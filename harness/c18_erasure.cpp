// C18 — type-erased wrappers behave exactly like the object they wrap.
//
// Three generated sub-domains (chosen by the first decoded value):
//  A. value wrappers: model-based operation sequences on a pool of slots holding any_unique / any_object (default:
//     24-byte buffer, nothrow moves required) / basic_any_object (32-byte buffer, throwing moves allowed, counting
//     allocator) over five tracked types (small, small with throwing move, large, large with throwing move,
//     over-aligned): emplace in place, construct from an rvalue, with an allocator, move-construct, move-assign,
//     assign a value, swap, invoke three CPOs (const query, mutator, possibly-throwing), destroy; faults: the wrapped
//     type's move constructor or the allocator throw at a generated point.  any_ref: bind, copy, assign, swap, ==.
//     Oracle: a per-slot model (held type and value / moved-from / valueless), CPO answers equal the model's, wrapped
//     objects never copied, heap-stored objects never moved by a wrapper move (same address), constructed exactly as
//     often as destroyed, allocator ledger balanced, correct alignment, exceptions propagate unchanged and leave the
//     documented states.
//  B. any_scheduler / any_scheduler_ref: equality and type() against the wrapped schedulers' own equality over
//     generated pools (two scheduler types, several contexts, copies, moves, assignments); schedule() through the
//     wrapper vs. directly with the same stop script: same signal, same context, stop observed through the adapted token.
//  C. any_sender_of<long>: a harness sender run directly and through the wrapper with the same script (outcome,
//     timing, reaction to stop, stop step): same signal, value, error identity, stop observations, destruction counts.
// (The "wrapper inserted at any node of an expression/stream" part of the property is checked by the exprfuzz and
//  c13_streams units run on their shapes that contain any_sender_of / type_erase.)
#include "kit/case.hpp"
#include "kit/sr.hpp"

#include <unifex/any_object.hpp>
#include <unifex/any_ref.hpp>
#include <unifex/any_scheduler.hpp>
#include <unifex/any_sender_of.hpp>
#include <unifex/any_unique.hpp>
#include <unifex/overload.hpp>
#include <unifex/this.hpp>

#include <map>
#include <optional>
#include <set>

namespace {
const char* P = "C18";
using sr::HStopSource; using sr::HStopToken;
struct Injected { long k; };

struct G {
  std::map<const void*, int> live;   // address -> type id
  long ctors = 0, copies = 0, moves = 0, dtors = 0;
  long throw_counter = 0, throw_at = -1; bool fault_fired = false; long fired_k = -1;
  long allocs = 0, deallocs = 0; std::map<void*, size_t> blocks;
  void throw_point(const char* what) {
    long k = throw_counter++;
    if (k == throw_at) { fault_fired = true; fired_k = k; SR_TR("fault: %s throws (point #%ld)", what, k); throw Injected{k}; }
  }
};
G* g_g = nullptr;
G& GG() { return *g_g; }

// ------------------------------------------------------------------------------------------------ CPOs
inline constexpr struct get_val_t {
  using type_erased_signature_t = long(const unifex::this_&) noexcept;
  template <class T> auto operator()(const T& x) const noexcept -> unifex::tag_invoke_result_t<get_val_t, const T&> { return unifex::tag_invoke(*this, x); }
} get_val{};
inline constexpr struct add_to_t {
  using type_erased_signature_t = void(unifex::this_&, long);
  template <class T> auto operator()(T& x, long d) const -> unifex::tag_invoke_result_t<add_to_t, T&, long> { return unifex::tag_invoke(*this, x, d); }
} add_to{};
inline constexpr struct may_throw_t {
  using type_erased_signature_t = long(const unifex::this_&, long);
  template <class T> auto operator()(const T& x, long k) const -> unifex::tag_invoke_result_t<may_throw_t, const T&, long> { return unifex::tag_invoke(*this, x, k); }
} may_throw{};
inline constexpr struct addr_of_t {
  using type_erased_signature_t = const void*(const unifex::this_&) noexcept;
  template <class T> auto operator()(const T& x) const noexcept -> unifex::tag_invoke_result_t<addr_of_t, const T&> { return unifex::tag_invoke(*this, x); }
} addr_of{};

inline constexpr struct peek_t {      // non-const query (any_unique's allocator path only supports CPOs taking a non-const object)
  using type_erased_signature_t = long(unifex::this_&) noexcept;
  template <class T> auto operator()(T& x) const noexcept -> unifex::tag_invoke_result_t<peek_t, T&> { return unifex::tag_invoke(*this, x); }
} peek{};
inline constexpr struct addr_mut_t {
  using type_erased_signature_t = const void*(unifex::this_&) noexcept;
  template <class T> auto operator()(T& x) const noexcept -> unifex::tag_invoke_result_t<addr_mut_t, T&> { return unifex::tag_invoke(*this, x); }
} addr_mut{};

// ------------------------------------------------------------------------------------------------ tracked wrapped types
template <int Id, int Pad, int Align, bool NxMove, bool NxCopy = true>
struct alignas(Align) Obj {
  long v; char pad[Pad > 0 ? Pad : 1];
  static constexpr int id = Id;
  void born() {
    if ((reinterpret_cast<uintptr_t>(this) % Align) != 0) SR_FAIL(P, "misaligned", "a wrapped object of type T%d (alignment %d) was constructed at %p", Id, Align, (void*)this);
    if (!GG().live.emplace(this, Id).second) SR_FAIL(P, "constructed_over_live", "a wrapped object was constructed at %p over a live one", (void*)this);
  }
  explicit Obj(long x) : v(x) { born(); GG().ctors++; }
  Obj(const Obj& o) noexcept(NxCopy) : v(o.v) { if constexpr (!NxCopy) GG().throw_point("copy constructor of the wrapped object"); o.check("copied from"); born(); GG().copies++; }
  Obj(Obj&& o) noexcept(NxMove) : v(0) {
    if constexpr (!NxMove) GG().throw_point("move constructor of the wrapped object");
    o.check("moved from");
    v = o.v; o.v = -777; born(); GG().moves++;
  }
  Obj& operator=(const Obj&) = delete;
  ~Obj() {
    auto it = GG().live.find(this);
    if (it == GG().live.end()) SR_FAIL(P, "destroyed_twice", "a wrapped object of type T%d at %p was destroyed although it is not alive", Id, (void*)this);
    else GG().live.erase(it);
    GG().dtors++;
  }
  void check(const char* what) const { if (!GG().live.count(this)) SR_FAIL(P, "dead_object_used", "a dead wrapped object at %p was %s", (const void*)this, what); }
  friend long tag_invoke(get_val_t, const Obj& o) noexcept { o.check("queried"); return o.v * 8 + Id; }
  friend void tag_invoke(add_to_t, Obj& o, long d) { o.check("mutated"); o.v += d; }
  friend long tag_invoke(may_throw_t, const Obj& o, long k) { o.check("queried"); if (k % 5 == 3) throw Injected{100000 + o.v}; return o.v + k; }
  friend const void* tag_invoke(addr_of_t, const Obj& o) noexcept { return &o; }
  friend long tag_invoke(peek_t, Obj& o) noexcept { o.check("queried"); return o.v * 8 + Id; }
  friend const void* tag_invoke(addr_mut_t, Obj& o) noexcept { return &o; }
};
using T0 = Obj<0, 0, 8, true>;     // 16 bytes
using T1 = Obj<1, 0, 8, false>;    // 16 bytes, move may throw
using T2 = Obj<2, 48, 8, true>;    // large
using T3 = Obj<3, 48, 8, false>;   // large, move may throw
using T4 = Obj<4, 0, 64, true>;    // over-aligned
using T5 = Obj<5, 0, 8, true, false>;   // small, nothrow move, copy may throw (assigned / constructed from lvalues)

template <class T>
struct LAlloc {
  using value_type = T;
  LAlloc() noexcept = default;
  template <class U> LAlloc(const LAlloc<U>&) noexcept {}
  T* allocate(size_t n) {
    GG().throw_point("allocator");
    void* p = ::operator new(n * sizeof(T), std::align_val_t(alignof(T) > 16 ? alignof(T) : 16));
    GG().allocs++; GG().blocks[p] = n * sizeof(T);
    return static_cast<T*>(p);
  }
  void deallocate(T* p, size_t n) noexcept {
    auto it = GG().blocks.find(p);
    if (it == GG().blocks.end()) SR_FAIL(P, "foreign_free", "a block was returned to the allocator that it did not hand out");
    else { if (it->second != n * sizeof(T)) SR_FAIL(P, "free_size_mismatch", "a block of %zu bytes was returned as %zu bytes", it->second, n * sizeof(T)); GG().blocks.erase(it); }
    GG().deallocs++;
    ::operator delete(p, std::align_val_t(alignof(T) > 16 ? alignof(T) : 16));
  }
  template <class U> bool operator==(const LAlloc<U>&) const noexcept { return true; }
  template <class U> bool operator!=(const LAlloc<U>&) const noexcept { return false; }
};

using WU = unifex::any_unique_t<get_val, add_to, may_throw, addr_of>;
using WUA = unifex::any_unique_t<add_to, peek, addr_mut>;   // constructed through an allocator
using WO = unifex::any_object_t<get_val, add_to, may_throw, addr_of>;
using WB = unifex::basic_any_object_t<32, 8, false, LAlloc<std::byte>, get_val, add_to, may_throw, addr_of>;
using WR = unifex::any_ref_t<get_val, add_to, addr_of>;

template <class W> struct WTraits;
struct ConstAccess { template <class W> static long read(W& w) { return get_val(std::as_const(w)); } template <class W> static const void* addr(W& w) { return addr_of(std::as_const(w)); } static constexpr bool has_may_throw = true; };
struct MutAccess { template <class W> static long read(W& w) { return peek(w); } template <class W> static const void* addr(W& w) { return addr_mut(w); } static constexpr bool has_may_throw = false; };
template <> struct WTraits<WU> : ConstAccess { static constexpr const char* name = "any_unique"; static constexpr bool has_swap = true, has_assign_value = false, has_alloc_ctor = false, is_unique = true; template <class T> static constexpr bool inplace = false; static constexpr bool nothrow_move = true; };
template <> struct WTraits<WUA> : MutAccess { static constexpr const char* name = "any_unique(allocator)"; static constexpr bool has_swap = true, has_assign_value = false, has_alloc_ctor = true, is_unique = true; template <class T> static constexpr bool inplace = false; static constexpr bool nothrow_move = true; };
template <> struct WTraits<WO> : ConstAccess { static constexpr const char* name = "any_object"; static constexpr bool has_swap = false, has_assign_value = true, has_alloc_ctor = true, is_unique = false;
  template <class T> static constexpr bool inplace = sizeof(T) <= 3 * sizeof(void*) && alignof(T) <= alignof(void*) && std::is_nothrow_move_constructible_v<T>; static constexpr bool nothrow_move = true; };
template <> struct WTraits<WB> : ConstAccess { static constexpr const char* name = "basic_any_object<32,8,throwing-move>"; static constexpr bool has_swap = false, has_assign_value = true, has_alloc_ctor = true, is_unique = false;
  template <class T> static constexpr bool inplace = sizeof(T) <= 32 && alignof(T) <= 8; static constexpr bool nothrow_move = false; };

enum SlotState { EMPTY, HOLDS, MOVED, VALUELESS };
struct MSlot { int st = EMPTY; int type = -1; long v = 0; bool inplace = false; const void* addr = nullptr; };

template <class W>
struct PoolRun {
  static constexpr int N = 4;
  std::optional<W> slot[N]; MSlot m[N];
  int ops_done = 0, moves_done = 0, throws_seen = 0, heap_moves = 0, inplace_moves = 0; long expected_copies = 0;
  using TR = WTraits<W>;

  template <class T> void emplace_kind(int s, int how, long v) {
    MSlot& ms = m[s];
    try {
      if constexpr (!TR::has_alloc_ctor) { if (how >= 2) how -= 2; }
      else if constexpr (TR::is_unique) { if (how < 2) how += 2; }    // the allocator flavour of any_unique is only built through its allocator constructors
      if (how == 0) slot[s].emplace(std::in_place_type<T>, v);
      else if (how == 1) { if constexpr (T::id == 5) { T tmp(v); slot[s].emplace(tmp); expected_copies++; } else slot[s].emplace(T(v)); }
      else if constexpr (TR::has_alloc_ctor) {
        if (how == 2) slot[s].emplace(std::allocator_arg, LAlloc<std::byte>{}, std::in_place_type<T>, v);
        else if constexpr (TR::is_unique) slot[s].emplace(T(v), LAlloc<std::byte>{});
        else slot[s].emplace(std::allocator_arg, LAlloc<std::byte>{}, T(v));
      }
      ms.st = HOLDS; ms.type = T::id; ms.v = v; ms.inplace = TR::template inplace<T>; ms.addr = TR::addr(*slot[s]);
      SR_TR("slot%d = %s(T%d(%ld)) via %s -> stored %s", s, TR::name, T::id, v, how == 0 ? "in_place" : how == 1 ? "rvalue" : how == 2 ? "allocator+in_place" : "allocator+rvalue", ms.inplace ? "inline" : "on the heap");
      bool inside = (const char*)ms.addr >= (const char*)&*slot[s] && (const char*)ms.addr < (const char*)&*slot[s] + sizeof(W);
      if (inside != ms.inplace) SR_FAIL(P, "storage_class", "%s holding T%d: the object lives %s the wrapper, the documented rule says %s", TR::name, T::id, inside ? "inside" : "outside", ms.inplace ? "inline" : "heap");
    } catch (const Injected& e) {
      throws_seen++;
      if (e.k != GG().fired_k) SR_FAIL(P, "exception_changed", "construction threw Injected{%ld}, the fault raised Injected{%ld}", e.k, GG().fired_k);
      if (slot[s].has_value()) SR_FAIL("*", "harness_optional", "optional engaged after throwing emplace");
      ms = MSlot();
      SR_TR("slot%d: construction of T%d threw (propagated)", s, T::id);
    }
  }
  void emplace(int s, int type, int how, long v) {
    if (m[s].st != EMPTY) return;
    switch (type) { case 0: emplace_kind<T0>(s, how, v); break; case 1: emplace_kind<T1>(s, how, v); break; case 2: emplace_kind<T2>(s, how, v); break; case 3: emplace_kind<T3>(s, how, v); break; case 4: emplace_kind<T4>(s, how, v); break; default: emplace_kind<T5>(s, how, v); break; }
  }
  void check_slot(int s, const char* after) {
    if (m[s].st != HOLDS) return;
    long got = TR::read(*slot[s]); long want = m[s].v * 8 + m[s].type;
    if (got != want) SR_FAIL(P, "value_mismatch", "%s: after %s, slot%d answers get_val = %ld, the wrapped T%d(%ld) answers %ld", TR::name, after, s, got, m[s].type, m[s].v, want);
  }
  void move_construct(int d, int s) {
    if (m[d].st != EMPTY || m[s].st != HOLDS || d == s) return;
    const void* before = m[s].addr; long mv0 = GG().moves;
    try {
      slot[d].emplace(std::move(*slot[s]));
      m[d] = m[s]; m[s].st = MOVED; m[d].addr = TR::addr(*slot[d]); moves_done++;
      SR_TR("slot%d <- move-construct from slot%d", d, s);
      if (!m[d].inplace) { heap_moves++; if (m[d].addr != before || GG().moves != mv0) SR_FAIL(P, "heap_object_moved", "%s: moving the wrapper moved the heap-stored T%d (address %p -> %p, %ld move-constructions)", TR::name, m[d].type, before, m[d].addr, GG().moves - mv0); }
      else inplace_moves++;
      check_slot(d, "move construction");
    } catch (const Injected& e) {
      throws_seen++;
      if (TR::nothrow_move) SR_FAIL(P, "noexcept_move_threw", "%s's move constructor is noexcept but an exception escaped", TR::name);
      if (e.k != GG().fired_k) SR_FAIL(P, "exception_changed", "move construction threw Injected{%ld}, the fault raised Injected{%ld}", e.k, GG().fired_k);
      SR_TR("slot%d <- move-construct from slot%d threw; source must be intact", d, s);
      check_slot(s, "a move construction that threw");
    }
  }
  void move_assign(int d, int s) {
    if (m[d].st == EMPTY || m[s].st != HOLDS || d == s) return;
    const void* before = m[s].addr; long mv0 = GG().moves;
    try {
      *slot[d] = std::move(*slot[s]);
      m[d] = m[s]; m[s].st = MOVED; m[d].addr = TR::addr(*slot[d]); moves_done++;
      SR_TR("slot%d <- move-assign from slot%d", d, s);
      if (!m[d].inplace) { heap_moves++; if (m[d].addr != before || GG().moves != mv0) SR_FAIL(P, "heap_object_moved", "%s: assigning the wrapper moved the heap-stored T%d (address %p -> %p, %ld move-constructions)", TR::name, m[d].type, before, m[d].addr, GG().moves - mv0); }
      else inplace_moves++;
      check_slot(d, "move assignment");
    } catch (const Injected& e) {
      throws_seen++;
      if (TR::nothrow_move) SR_FAIL(P, "noexcept_move_threw", "%s's move assignment is noexcept but an exception escaped", TR::name);
      if (e.k != GG().fired_k) SR_FAIL(P, "exception_changed", "move assignment threw Injected{%ld}, the fault raised Injected{%ld}", e.k, GG().fired_k);
      m[d].st = VALUELESS;   // documented: left in a valid (destructible, assignable) state
      SR_TR("slot%d <- move-assign from slot%d threw; target valueless, source intact", d, s);
      check_slot(s, "a move assignment that threw");
    }
  }
  template <class T> void assign_value_kind(int d, long v) {
    if constexpr (TR::has_assign_value) {
      try {
        if constexpr (T::id == 5) { T tmp(v); *slot[d] = tmp; expected_copies++; } else *slot[d] = T(v);
        m[d].st = HOLDS; m[d].type = T::id; m[d].v = v; m[d].inplace = TR::template inplace<T>; m[d].addr = TR::addr(*slot[d]);
        SR_TR("slot%d = T%d(%ld) (value assignment)", d, T::id, v);
        check_slot(d, "value assignment");
      } catch (const Injected& e) {
        throws_seen++;
        if (e.k != GG().fired_k) SR_FAIL(P, "exception_changed", "value assignment threw Injected{%ld}, the fault raised Injected{%ld}", e.k, GG().fired_k);
        m[d].st = VALUELESS;
        SR_TR("slot%d = T%d value assignment threw; target valueless", d, T::id);
      }
    }
  }
  void assign_value(int d, int type, long v) {
    if (m[d].st == EMPTY) return;
    switch (type) { case 0: assign_value_kind<T0>(d, v); break; case 1: assign_value_kind<T1>(d, v); break; case 2: assign_value_kind<T2>(d, v); break; case 3: assign_value_kind<T3>(d, v); break; case 4: assign_value_kind<T4>(d, v); break; default: assign_value_kind<T5>(d, v); break; }
  }
  void do_swap(int a, int b) {
    if constexpr (TR::has_swap) {
      if (m[a].st == EMPTY || m[b].st == EMPTY || a == b) return;
      long mv0 = GG().moves;
      using std::swap; swap(*slot[a], *slot[b]);
      std::swap(m[a], m[b]);
      SR_TR("swap(slot%d, slot%d)", a, b);
      if (GG().moves != mv0) SR_FAIL(P, "heap_object_moved", "%s: swap moved a wrapped object", TR::name);
      for (int s : {a, b}) if (m[s].st == HOLDS) { const void* now = TR::addr(*slot[s]); if (now != m[s].addr) SR_FAIL(P, "heap_object_moved", "%s: swap changed the address of a wrapped object", TR::name); }
      check_slot(a, "swap"); check_slot(b, "swap");
    }
  }
  void invoke(int s, int which, long arg) {
    if (m[s].st != HOLDS) return;
    if (which == 0) check_slot(s, "nothing");
    else if (which == 1) { add_to(*slot[s], arg); m[s].v += arg; SR_TR("add_to(slot%d, %ld)", s, arg); check_slot(s, "add_to"); }
    else if constexpr (TR::has_may_throw) {
      try {
        long got = may_throw(*slot[s], arg);
        if (arg % 5 == 3) SR_FAIL(P, "exception_lost", "%s: may_throw(slot%d, %ld) returned %ld, the wrapped object throws for this argument", TR::name, s, arg, got);
        else if (got != m[s].v + arg) SR_FAIL(P, "value_mismatch", "%s: may_throw(slot%d, %ld) = %ld, the wrapped object answers %ld", TR::name, s, arg, got, m[s].v + arg);
      } catch (const Injected& e) {
        if (arg % 5 != 3) SR_FAIL(P, "exception_invented", "%s: may_throw(slot%d, %ld) threw although the wrapped object does not throw for this argument", TR::name, s, arg);
        else if (e.k != 100000 + m[s].v) SR_FAIL(P, "exception_changed", "%s: the exception thrown by the wrapped object carried %ld, the wrapper delivered %ld", TR::name, 100000 + m[s].v, e.k);
        SR_TR("may_throw(slot%d, %ld) threw (expected)", s, arg);
      }
    }
  }
  void destroy(int s) {
    if (m[s].st == EMPTY) return;
    long d0 = GG().dtors; int st = m[s].st; bool inpl = m[s].inplace;
    slot[s].reset(); m[s] = MSlot();
    SR_TR("slot%d destroyed", s);
    long nd = GG().dtors - d0;
    // holding: the object; moved-from: any_unique and heap storage gave the object away (nothing left), inline storage still holds the moved-from object; valueless: nothing
    long want = st == HOLDS ? 1 : st == MOVED ? ((TR::is_unique || !inpl) ? 0 : 1) : 0;
    if (nd != want) SR_FAIL(P, "destroy_count", "%s: destroying a wrapper in state %s destroyed %ld wrapped object(s), expected %ld", TR::name, st == HOLDS ? "holding" : st == MOVED ? "moved-from" : "valueless", nd, want);
  }
  void run(vk::Choice& c) {
    int nops = 4 + (int)c.upto(28);
    for (int i = 0; i < nops && !vk::ctx().failed; ++i) {
      int op = (int)c.upto(10); int a = (int)c.upto(N), b = (int)c.upto(N);
      ops_done++;
      switch (op) {
        case 0: case 1: emplace(a, (int)c.upto(6), (int)c.upto(4), (long)c.upto(1000)); break;
        case 2: case 3: move_construct(a, b); break;
        case 4: case 5: move_assign(a, b); break;
        case 6: assign_value(a, (int)c.upto(6), (long)c.upto(1000)); break;
        case 7: do_swap(a, b); break;
        case 8: invoke(a, (int)c.upto(3), (long)c.upto(50)); break;
        default: destroy(a); break;
      }
    }
    for (int s = 0; s < N; ++s) destroy(s);
  }
};

template <class W> void run_pool(vk::Choice& c) {
  auto& cx = vk::ctx();
  PoolRun<W> pr; pr.run(c);
  G& g = GG();
  if (cx.failed) return;
  if (!g.live.empty()) SR_FAIL(P, "object_leaked", "%s: %zu wrapped object(s) were never destroyed although every wrapper has been destroyed", WTraits<W>::name, g.live.size());
  else if (g.ctors + g.copies + g.moves != g.dtors) SR_FAIL(P, "destroy_count", "%s: %ld constructions (%ld direct, %ld moves, %ld copies) but %ld destructions", WTraits<W>::name, g.ctors + g.copies + g.moves, g.ctors, g.moves, g.copies, g.dtors);
  if (g.copies != pr.expected_copies) SR_FAIL(P, "object_copied", "%s: the wrapped object was copy-constructed %ld time(s); the wrappers received %ld lvalue(s) to copy and otherwise only rvalues", WTraits<W>::name, g.copies, pr.expected_copies);
  if (g.allocs != g.deallocs || !g.blocks.empty()) SR_FAIL(P, "allocator_imbalance", "%s: %ld allocations, %ld deallocations through the supplied allocator", WTraits<W>::name, g.allocs, g.deallocs);
  cx.nontrivial = pr.moves_done >= 2 && (pr.heap_moves > 0) && (pr.inplace_moves > 0 || WTraits<W>::is_unique) ;
  if (pr.throws_seen) { cx.label("exception-propagated"); if (pr.moves_done >= 1) cx.nontrivial = true; }
  if (pr.heap_moves) cx.label("heap-stored-wrapper-moved");
  if (pr.inplace_moves) cx.label("inline-stored-wrapper-moved");
  cx.label(std::string("A:") + WTraits<W>::name);
}

// any_ref
void run_refs(vk::Choice& c) {
  auto& cx = vk::ctx();
  T0 o0(11); T2 o1(22); T4 o2(33); T0 o3(11);
  long vals[4] = {11, 22, 33, 11}; int types[4] = {0, 2, 4, 0};
  const void* addrs[4] = {&o0, &o1, &o2, &o3};
  auto make = [&](int i) -> WR { switch (i) { case 0: return WR(o0); case 1: return WR(o1); case 2: return WR(o2); default: return WR(o3); } };
  std::optional<WR> slot[4]; int m[4] = {-1, -1, -1, -1};
  int nops = 4 + (int)c.upto(24), rebinds = 0, compares = 0;
  for (int i = 0; i < nops && !cx.failed; ++i) {
    int op = (int)c.upto(7), a = (int)c.upto(4), b = (int)c.upto(4);
    switch (op) {
      case 0: { int o = (int)c.upto(4); slot[a].emplace(make(o)); m[a] = o; SR_TR("ref%d -> obj%d", a, o); break; }
      case 1: if (m[b] >= 0) { slot[a].emplace(*slot[b]); m[a] = m[b]; rebinds++; SR_TR("ref%d = copy of ref%d", a, b); } break;
      case 2: if (m[a] >= 0 && m[b] >= 0) { *slot[a] = *slot[b]; m[a] = m[b]; rebinds++; SR_TR("ref%d assigned from ref%d", a, b); } break;
      case 3: if (m[a] >= 0 && m[b] >= 0) { using std::swap; swap(*slot[a], *slot[b]); std::swap(m[a], m[b]); rebinds++; SR_TR("swap(ref%d, ref%d)", a, b); } break;
      case 4: if (m[a] >= 0 && m[b] >= 0) {
        bool eq = *slot[a] == *slot[b], ne = *slot[a] != *slot[b]; compares++;
        if (eq != (m[a] == m[b]) || ne == eq) SR_FAIL(P, "ref_equality", "any_ref: ref%d (obj%d) == ref%d (obj%d) gives %d (!= gives %d); references compare equal iff they refer to the same object", a, m[a], b, m[b], (int)eq, (int)ne);
      } break;
      case 5: if (m[a] >= 0) { long d = (long)c.upto(9); add_to(*slot[a], d); vals[m[a]] += d; SR_TR("add_to(ref%d -> obj%d, %ld)", a, m[a], d); } break;
      default: if (m[a] >= 0) {
        long got = get_val(*slot[a]), want = vals[m[a]] * 8 + types[m[a]];
        if (got != want) SR_FAIL(P, "value_mismatch", "any_ref: ref%d refers to obj%d; get_val gives %ld, the object answers %ld", a, m[a], got, want);
        if (addr_of(*slot[a]) != addrs[m[a]]) SR_FAIL(P, "ref_target", "any_ref: ref%d should refer to obj%d", a, m[a]);
      } break;
    }
  }
  if (GG().copies || GG().moves) SR_FAIL(P, "object_copied", "any_ref copied or moved the referenced object (%ld copies, %ld moves)", GG().copies, GG().moves);
  cx.nontrivial = rebinds >= 2 && compares >= 1;
  cx.label("A:any_ref");
}

// ------------------------------------------------------------------------------------------------ B: schedulers
struct BEnv { std::vector<std::pair<void*, void (*)(void*)>> pending; int ctx = 0; int items = 0; };
BEnv* g_b = nullptr;
template <int Tag> struct BSched {
  int ctx = 1;
  struct sender {
    int ctx;
    template <template <class...> class V, template <class...> class T> using value_types = V<T<>>;
    template <template <class...> class V> using error_types = V<>;
    static constexpr bool sends_done = true;
    template <class R> struct op {
      int ctx; R r; bool started = false, fired = false;
      op(int c, R&& rr) : ctx(c), r((R &&) rr) {}
      op(op&&) = delete;
      void start() noexcept { started = true; g_b->items++; g_b->pending.push_back({this, [](void* p) { static_cast<op*>(p)->fire(); }}); }
      void fire() noexcept {
        fired = true; int prev = g_b->ctx; g_b->ctx = ctx * 10 + Tag;
        if (unifex::get_stop_token(r).stop_requested()) unifex::set_done(std::move(r)); else unifex::set_value(std::move(r));
        g_b->ctx = prev;
      }
      ~op() { if (started && !fired) SR_FAIL(P, "schedule_op_destroyed_pending", "a schedule() operation was destroyed while enqueued"); }
    };
    template <class R> friend op<unifex::remove_cvref_t<R>> tag_invoke(unifex::tag_t<unifex::connect>, sender s, R&& r) { return op<unifex::remove_cvref_t<R>>{s.ctx, (R &&) r}; }
  };
  sender schedule() const noexcept { return sender{ctx}; }
  friend bool operator==(BSched a, BSched b) noexcept { return a.ctx == b.ctx; }
  friend bool operator!=(BSched a, BSched b) noexcept { return a.ctx != b.ctx; }
};
struct BOut { int chan = -1; int ctx = -1; int signals = 0; };
struct BRecv {
  BOut* o; HStopSource* ss;
  void fin(int ch) noexcept { o->signals++; o->chan = ch; o->ctx = g_b->ctx; }
  void set_value() && noexcept { fin(0); }
  void set_error(std::exception_ptr) && noexcept { fin(1); }
  void set_done() && noexcept { fin(2); }
  friend HStopToken tag_invoke(unifex::tag_t<unifex::get_stop_token>, const BRecv& r) noexcept { return HStopToken{r.ss}; }
};
template <class Sender> BOut run_sched_once(Sender&& s, int stop_when) {
  BEnv env; g_b = &env; BOut out; HStopSource ss;
  {
    if (stop_when == 1) ss.request_stop();
    auto op = unifex::connect((Sender &&) s, BRecv{&out, &ss});
    unifex::start(op);
    if (stop_when == 2) ss.request_stop();
    while (!env.pending.empty()) { auto e = env.pending.front(); env.pending.erase(env.pending.begin()); e.second(e.first); }
    if (stop_when == 3) ss.request_stop();
  }
  g_b = nullptr;
  return out;
}

void run_scheds(vk::Choice& c) {
  auto& cx = vk::ctx();
  struct MS { int tag, ctx; };
  std::vector<unifex::any_scheduler> pool; std::vector<MS> model;
  int n = 2 + (int)c.upto(4);
  for (int i = 0; i < n; ++i) {
    int tag = (int)c.upto(2), ctx = 1 + (int)c.upto(3);
    if (tag == 0) pool.emplace_back(BSched<0>{ctx}); else pool.emplace_back(BSched<1>{ctx});
    model.push_back({tag, ctx});
  }
  int nops = 3 + (int)c.upto(14), derived = 0, cmp = 0, runs = 0;
  for (int i = 0; i < nops && !cx.failed; ++i) {
    int op = (int)c.upto(5); size_t a = c.upto((uint32_t)pool.size()), b = c.upto((uint32_t)pool.size());
    if (op == 0 && pool.size() < 8) { pool.push_back(pool[a]); model.push_back(model[a]); derived++; SR_TR("sched%zu = copy of sched%zu", pool.size() - 1, a); }
    else if (op == 1 && a != b) { pool[a] = pool[b]; model[a] = model[b]; derived++; SR_TR("sched%zu copy-assigned from sched%zu", a, b); }
    else if (op == 2 && pool.size() < 8) { unifex::any_scheduler tmp(pool[a]); pool.push_back(std::move(tmp)); model.push_back(model[a]); derived++; SR_TR("sched%zu = moved copy of sched%zu", pool.size() - 1, a); }
    else if (op == 3) {
      bool eq = pool[a] == pool[b], ne = pool[a] != pool[b]; cmp++;
      bool want = model[a].tag == model[b].tag && model[a].ctx == model[b].ctx;
      if (eq != want || ne == eq) SR_FAIL(P, "scheduler_equality", "any_scheduler: sched%zu (type %d, ctx %d) == sched%zu (type %d, ctx %d) gives %d (!= gives %d); the wrapped schedulers compare %s", a, model[a].tag, model[a].ctx, b, model[b].tag, model[b].ctx, (int)eq, (int)ne, want ? "equal" : "different");
      bool teq = pool[a].type() == pool[b].type();
      if (teq != (model[a].tag == model[b].tag)) SR_FAIL(P, "scheduler_type", "any_scheduler::type(): sched%zu and sched%zu wrap %s types but type() compares %s", a, b, model[a].tag == model[b].tag ? "the same" : "different", teq ? "equal" : "different");
      // any_scheduler_ref: shallow == (same wrapped object), deep equal_to
      if (model[a].tag == 0 && model[b].tag == 0) {
        BSched<0> x{model[a].ctx}, y{model[b].ctx};
        unifex::any_scheduler_ref rx(x), ry(y), rx2(x);
        if (!(rx == rx2) || (rx != rx2)) SR_FAIL(P, "scheduler_equality", "any_scheduler_ref: two references to the same scheduler compare different");
        if (rx == ry) SR_FAIL(P, "scheduler_equality", "any_scheduler_ref: references to two distinct scheduler objects compare equal (shallow comparison is documented)");
        if (rx.equal_to(ry) != (x == y)) SR_FAIL(P, "scheduler_equality", "any_scheduler_ref::equal_to gives %d, the wrapped schedulers compare %d", (int)rx.equal_to(ry), (int)(x == y));
      }
    } else if (op == 4) {
      int stop_when = (int)c.upto(4); runs++;
      BOut direct, wrapped, viaref;
      if (model[a].tag == 0) { BSched<0> s{model[a].ctx}; direct = run_sched_once(s.schedule(), stop_when); unifex::any_scheduler_ref r(s); viaref = run_sched_once(r.schedule(), stop_when); }
      else { BSched<1> s{model[a].ctx}; direct = run_sched_once(s.schedule(), stop_when); unifex::any_scheduler_ref r(s); viaref = run_sched_once(r.schedule(), stop_when); }
      wrapped = run_sched_once(pool[a].schedule(), stop_when);
      SR_TR("schedule() on sched%zu (type %d ctx %d), stop %s: direct (%d on %d), any_scheduler (%d on %d), any_scheduler_ref (%d on %d)", a, model[a].tag, model[a].ctx,
            stop_when == 0 ? "never" : stop_when == 1 ? "before connect" : stop_when == 2 ? "while enqueued" : "after completion", direct.chan, direct.ctx, wrapped.chan, wrapped.ctx, viaref.chan, viaref.ctx);
      for (auto* w : {&wrapped, &viaref}) {
        const char* wn = w == &wrapped ? "any_scheduler" : "any_scheduler_ref";
        if (w->signals != 1) SR_FAIL(P, "schedule_signals", "%s: schedule() delivered %d completion signals", wn, w->signals);
        else if (w->chan != direct.chan) SR_FAIL(P, "schedule_differs", "%s: schedule() completed with %s, the wrapped scheduler's schedule() with %s (stop %s)", wn, sr::chan_name(w->chan), sr::chan_name(direct.chan), stop_when == 1 ? "before connect" : stop_when == 2 ? "while enqueued" : "not before completion");
        else if (w->ctx != direct.ctx) SR_FAIL(P, "schedule_context", "%s: schedule() completed on context %d, the wrapped scheduler completes on %d", wn, w->ctx, direct.ctx);
      }
    }
  }
  cx.nontrivial = derived >= 1 && cmp >= 1 && runs >= 1;
  cx.label("B:any_scheduler");
}

// ------------------------------------------------------------------------------------------------ C: any_sender_of differential
struct CSpec { int chan = 0; int timing = 0; int on_stop = 1; long value = 0; };
struct CRun {
  std::vector<std::pair<void*, void (*)(void*, int)>> pending; std::vector<int> pkind;
  bool started = false, completed = false, stop_seen = false, stopped_at_start = false, op_destroyed = false; int connects = 0;
  int signals = 0, chan = -1; long value = 0, err = 0;
  HStopSource ss;
};
CRun* g_c = nullptr;
struct CFailure { long code; };
struct CSender {
  CSpec sp;
  template <template <class...> class V, template <class...> class T> using value_types = V<T<long>>;
  template <template <class...> class V> using error_types = V<std::exception_ptr>;
  static constexpr bool sends_done = true;
  template <class R> struct Op {
    using stop_token_t = unifex::stop_token_type_t<R&>;
    struct StopFn { Op* op; void operator()() noexcept { op->on_stop(); } };
    using cb_t = typename stop_token_t::template callback_type<StopFn>;
    CSpec sp; R r; bool cb_live = false, in_ctor = false, stop_in_ctor = false, pend_done = false;
    unifex::manual_lifetime<cb_t> cb;
    Op(CSpec s, R&& rr) : sp(s), r((R &&) rr) { g_c->connects++; }
    Op(Op&&) = delete;
    ~Op() { g_c->op_destroyed = true; if (g_c->started && !g_c->completed) { SR_FAIL(P, "wrapped_op_destroyed_in_flight", "the wrapped operation was destroyed after start() and before it completed"); if (cb_live) cb.destruct(); } }
    void start() noexcept {
      CRun& e = *g_c; e.started = true;
      auto tok = unifex::get_stop_token(r);
      e.stopped_at_start = tok.stop_requested();
      cb_live = true; in_ctor = true; cb.construct(tok, StopFn{this}); in_ctor = false;
      if (stop_in_ctor) on_stop();
      if (e.completed || pend_done) return;
      if (sp.timing == 0) complete(sp.chan);
      else if (sp.timing == 1) { e.pending.push_back({this, [](void* p, int k) { static_cast<Op*>(p)->fire(k); }}); e.pkind.push_back(0); }
    }
    void on_stop() noexcept {
      if (in_ctor) { stop_in_ctor = true; return; }
      CRun& e = *g_c; if (e.stop_seen) return; e.stop_seen = true;
      if (e.completed) return;
      if (sp.on_stop == 1) { e.pending.clear(); e.pkind.clear(); complete(2); }
      else if (sp.on_stop == 2 && !pend_done) { e.pending.clear(); e.pkind.clear(); pend_done = true; e.pending.push_back({this, [](void* p, int k) { static_cast<Op*>(p)->fire(k); }}); e.pkind.push_back(1); }
    }
    void fire(int k) noexcept { complete(k == 1 ? 2 : sp.chan); }
    void complete(int ch) noexcept {
      g_c->completed = true;
      if (cb_live) { cb_live = false; cb.destruct(); }
      if (ch == 0) unifex::set_value(std::move(r), (long)sp.value);
      else if (ch == 1) unifex::set_error(std::move(r), std::make_exception_ptr(CFailure{sp.value}));
      else unifex::set_done(std::move(r));
    }
  };
  template <class R> friend Op<unifex::remove_cvref_t<R>> tag_invoke(unifex::tag_t<unifex::connect>, CSender s, R&& r) { return Op<unifex::remove_cvref_t<R>>{s.sp, (R &&) r}; }
};
struct CRecv {
  void fin(int ch, long v, long e) noexcept { g_c->signals++; g_c->chan = ch; g_c->value = v; g_c->err = e; }
  void set_value(long v) && noexcept { fin(0, v, 0); }
  void set_error(std::exception_ptr ep) && noexcept { long code = -1; try { std::rethrow_exception(ep); } catch (const CFailure& f) { code = f.code; } catch (...) {} fin(1, 0, code); }
  void set_done() && noexcept { fin(2, 0, 0); }
  friend HStopToken tag_invoke(unifex::tag_t<unifex::get_stop_token>, const CRecv&) noexcept { return HStopToken{&g_c->ss}; }
};
template <class S> void run_sender_once(S&& s, int stop_step, CRun& out) {
  g_c = &out;
  {
    if (stop_step == 0) out.ss.request_stop();
    auto op = unifex::connect((S &&) s, CRecv{});
    if (stop_step == 1) out.ss.request_stop();
    unifex::start(op);
    if (stop_step == 2) out.ss.request_stop();
    int guard = 0;
    while (!out.pending.empty() && guard++ < 10) { auto e = out.pending.front(); int k = out.pkind.front(); out.pending.erase(out.pending.begin()); out.pkind.erase(out.pkind.begin()); e.second(e.first, k); }
    if (stop_step == 3) out.ss.request_stop();
  }
  g_c = nullptr;
}
void run_any_sender(vk::Choice& c) {
  auto& cx = vk::ctx();
  CSpec sp; sp.chan = (int)c.upto(3); sp.timing = (int)c.upto(3); sp.on_stop = (int)c.upto(3); sp.value = (long)c.upto(100000);
  int stop_step = (int)c.upto(5);   // 4: never
  if (sp.timing == 2 && (sp.on_stop == 0 || stop_step >= 3)) { sp.on_stop = 1; if (stop_step >= 3) stop_step = 2; }   // an operation that only ends on stop must be stopped while it runs
  int nest = (int)c.upto(3);
  CRun direct, wrapped;
  run_sender_once(CSender{sp}, stop_step, direct);
  if (nest == 0) run_sender_once(unifex::any_sender_of<long>(CSender{sp}), stop_step, wrapped);
  else if (nest == 1) { unifex::any_sender_of<long> a(CSender{sp}); unifex::any_sender_of<long> b(std::move(a)); run_sender_once(std::move(b), stop_step, wrapped); }
  else run_sender_once(unifex::any_sender_of<long>(unifex::any_sender_of<long>(CSender{sp})), stop_step, wrapped);
  cx.desc += vk::sfmt(" sender{%s %s on_stop=%d value=%ld} stop_step=%d wrapper=%s", sr::chan_name(sp.chan), sp.timing == 0 ? "inline" : sp.timing == 1 ? "deferred" : "on-stop-only", sp.on_stop, sp.value, stop_step, nest == 0 ? "any_sender_of" : nest == 1 ? "moved any_sender_of" : "any_sender_of(any_sender_of)");
  SR_TR("direct: %s value=%ld err=%ld stop_seen=%d stopped_at_start=%d | wrapped: %s value=%ld err=%ld stop_seen=%d stopped_at_start=%d", sr::chan_name(direct.chan), direct.value, direct.err, (int)direct.stop_seen, (int)direct.stopped_at_start,
        sr::chan_name(wrapped.chan), wrapped.value, wrapped.err, (int)wrapped.stop_seen, (int)wrapped.stopped_at_start);
  if (direct.signals != 1) { SR_FAIL("*", "harness_direct", "harness: the direct run delivered %d signals", direct.signals); return; }
  if (wrapped.signals != 1) SR_FAIL(P, "any_sender_signals", "any_sender_of: %d completion signals (the wrapped sender delivers exactly one)", wrapped.signals);
  else if (wrapped.chan != direct.chan) SR_FAIL(P, "any_sender_differs", "any_sender_of completed with %s, the wrapped sender with %s", sr::chan_name(wrapped.chan), sr::chan_name(direct.chan));
  else if (wrapped.value != direct.value || wrapped.err != direct.err) SR_FAIL(P, "any_sender_payload", "any_sender_of delivered value %ld / error %ld, the wrapped sender %ld / %ld", wrapped.value, wrapped.err, direct.value, direct.err);
  else if (wrapped.stop_seen != direct.stop_seen) SR_FAIL(P, "any_sender_stop", "stop request %s the wrapped operation through any_sender_of but %s it directly", wrapped.stop_seen ? "reached" : "did not reach", direct.stop_seen ? "reached" : "did not reach");
  else if (wrapped.stopped_at_start != direct.stopped_at_start) SR_FAIL(P, "any_sender_stop", "at start() the adapted token reports stop_requested=%d, the receiver's own token %d", (int)wrapped.stopped_at_start, (int)direct.stopped_at_start);
  else if (wrapped.connects != 1 || !wrapped.op_destroyed) SR_FAIL(P, "any_sender_lifetime", "any_sender_of: wrapped sender connected %d time(s), wrapped operation destroyed=%d", wrapped.connects, (int)wrapped.op_destroyed);
  cx.nontrivial = (stop_step <= 2 && sp.timing != 0) || sp.chan != 0 || nest != 0;
  cx.label("C:any_sender_of");
  if (direct.stop_seen) cx.label("stop-reached-wrapped-operation");
}

}  // namespace

extern "C" const char* vk_harness_name() { return "c18_erasure"; }
const char* vk_nontrivial_rule() {
  return "A: operation sequences (4..31 ops over 4 slots) on any_unique / any_object / basic_any_object<32,8,throwing moves,counting allocator> over 5 tracked types, with a throwing move constructor / allocator at a generated point; any_ref sequences. "
         "non-trivial = at least two wrapper moves including one of a heap-stored and one of an inline-stored object, or an exception propagated through a wrapper operation after a move. B: pools of any_scheduler over two scheduler types x contexts with copies/moves/assignments, "
         "pairwise equality/type() and schedule() differential with 4 stop timings; non-trivial = a derived wrapper, a comparison and a schedule() run. C: any_sender_of<long> (plain / moved / nested) vs. the wrapped sender with the same script; non-trivial = stop while running, or error/done outcome, or moved/nested wrapper. distinct = hash of the decoded case";
}

void vk_run_case(vk::Choice& c) {
  auto& cx = vk::ctx();
  G g; g_g = &g;
  int dom = (int)c.upto(8);
  if (c.chance(1, 3)) g.throw_at = (long)c.upto(10);
  cx.desc = vk::sfmt("domain %d throw_at=%ld", dom, g.throw_at);
  switch (dom) {
    case 0: run_pool<WU>(c); break;
    case 1: run_pool<WUA>(c); break;
    case 2: run_pool<WO>(c); break;
    case 3: case 4: run_pool<WB>(c); break;
    case 5: g.throw_at = -1; run_refs(c); break;
    case 6: g.throw_at = -1; run_scheds(c); break;
    default: g.throw_at = -1; run_any_sender(c); break;
  }
  g_g = nullptr;
}
