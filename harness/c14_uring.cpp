// C14 (io_uring_context) — real threads, real kernel; oracles depend on results and orders of events, never on speed.
// A loop thread runs run(stop_token).  A generated script is executed step by step from the main thread:
//   file steps   : async_write_some_at / async_read_some_at on a scratch file (read-write handle) against an in-memory
//                  model of the file contents (round trip: data intact, sizes true, reads beyond EOF return 0)
//   socket steps : a loopback connection accepted through open_listening_socket()/next(); async_read_some_at on the
//                  connection parks until the peer (a plain blocking socket of the harness) writes; reads are cancelled
//                  before start / while parked; the connection is reused afterwards; bytes read == bytes the peer sent
//   schedule     : 1-2 producer threads call schedule() concurrently (nothing lost, everything on the loop thread)
//   timers       : schedule_at with small delays, optionally cancelled (never early, exactly once)
// A cancelled operation must complete with done without waiting for data: the harness sends data only after the
// cancelled operation has completed or a grace period has passed, and reports an operation that completed only after
// that late data was sent ("cancelled read waited for data").  A step that exceeds the (generous) wait budget makes
// the case inconclusive, never a violation.
#include "kit/case.hpp"

#include <unifex/config.hpp>
#include <unifex/inplace_stop_token.hpp>
#include <unifex/io_concepts.hpp>
#include <unifex/file_concepts.hpp>
#include <unifex/linux/io_uring_context.hpp>
#include <unifex/manual_lifetime.hpp>
#include <unifex/scheduler_concepts.hpp>
#include <unifex/span.hpp>
#include <unifex/stream_concepts.hpp>

#include <arpa/inet.h>
#include <netinet/in.h>
#include <sys/socket.h>
#include <unistd.h>

#include <atomic>
#include <chrono>
#include <memory>
#include <thread>

using namespace unifex;
using namespace unifex::linuxos;

namespace {
const char* P = "C14";
enum { VALUE = 0, ERROR = 1, DONE = 2 };

struct Slot {
  std::atomic<int> signals{0}; int chan = -1; long value = -1; int err = 0; std::thread::id thread; int fd_value = -1;
  inplace_stop_source src;
};
bool wait_done(Slot& s, int ms) {
  auto t0 = std::chrono::steady_clock::now();
  while (s.signals.load(std::memory_order_acquire) == 0) {
    if (std::chrono::steady_clock::now() - t0 > std::chrono::milliseconds(ms)) return false;
    std::this_thread::sleep_for(std::chrono::microseconds(50));
  }
  return true;
}
std::optional<io_uring_context::async_read_write_file>* g_conn_out = nullptr;
struct Recv {
  Slot* s;
  void fin(int chan, long v, int err) noexcept {
    s->chan = chan; s->value = v; s->err = err; s->thread = std::this_thread::get_id();
    int n = s->signals.fetch_add(1, std::memory_order_acq_rel) + 1;
    if (n > 1) vk::ctx().fail(P, "double_completion", "an io_uring_context operation completed %d times", n);
  }
  void set_value() && noexcept { fin(VALUE, 0, 0); }
  void set_value(ssize_t n) && noexcept { fin(VALUE, (long)n, 0); }
  void set_value(io_uring_context::async_read_write_file&& f) && noexcept { if (g_conn_out) g_conn_out->emplace(std::move(f)); fin(VALUE, 1, 0); }
  void set_error(std::error_code ec) && noexcept { fin(ERROR, 0, ec.value()); }
  void set_error(std::exception_ptr) && noexcept { fin(ERROR, 0, -1); }
  void set_done() && noexcept { fin(DONE, 0, 0); }
  friend inplace_stop_token tag_invoke(tag_t<get_stop_token>, const Recv& r) noexcept { return r.s->src.get_token(); }
};
// exact-size heap block for the operation state: freed right after completion, so a late touch by the context is a heap-use-after-free
template <class S> struct Box {
  using Op = connect_result_t<S, Recv>;
  void* mem = nullptr; Op* op = nullptr;
  void go(S&& s, Slot* sl) { mem = ::operator new(sizeof(Op), std::align_val_t(alignof(Op))); op = ::new (mem) Op(unifex::connect(std::move(s), Recv{sl})); unifex::start(*op); }
  void reset() { if (op) { op->~Op(); ::operator delete(mem, std::align_val_t(alignof(Op))); op = nullptr; } }
  ~Box() { reset(); }
};
unsigned char pat(size_t i, int salt) { return (unsigned char)((i * 13 + 5 + (size_t)salt * 31) & 0xff); }
constexpr int WAIT_MS = 20000, GRACE_MS = 1500;
}  // namespace

extern "C" const char* vk_harness_name() { return "c14_uring"; }
const char* vk_nontrivial_rule() {
  return "script of 3..14 steps over {write_at(off,len), read_at(off,len) on a scratch file vs a byte-array model; socket read with the peer sending before/after, cancelled before start / while parked, then reused; "
         "2 producer threads x k schedule(); schedule_at timers, optionally cancelled}. non-trivial = at least one file read after a write overlapping it, or a cancelled socket read followed by a successful one, or concurrent producers. distinct = hash of the decoded script";
}

void vk_run_case(vk::Choice& c) {
  auto& cx = vk::ctx();
  bool inconclusive = false; bool nt = false;
  struct Step { int kind; long a, b; int mode; };
  std::vector<Step> steps; int n = 3 + (int)c.upto(12);
  for (int i = 0; i < n; ++i) {
    Step s; s.kind = (int)c.upto(6); s.a = (long)c.upto(3000); s.b = 1 + (long)c.upto(5000); s.mode = (int)c.upto(4);
    steps.push_back(s);
  }
  cx.desc = "steps:";
  static const char* kn[] = {"write_at", "read_at", "sock_read", "schedule", "timer", "sock_read"};
  for (auto& s : steps) cx.desc += vk::sfmt(" %s(%ld,%ld,m%d)", kn[s.kind], s.a, s.b, s.mode);

  std::string path = cx.workdir + vk::sfmt("/c14_uring_%d.bin", (int)getpid());
  { FILE* f = fopen(path.c_str(), "wb"); if (f) fclose(f); }
  std::vector<unsigned char> model;   // file contents
  {
    io_uring_context ctx;
    inplace_stop_source loop_stop; std::thread::id loop_id;
    std::thread loop([&] { loop_id = std::this_thread::get_id(); ctx.run(loop_stop.get_token()); });
    auto sched = ctx.get_scheduler();
    auto file = open_file_read_write(sched, path);
    // ---- loopback connection through the context's accept stream
    std::optional<io_uring_context::async_read_write_file> conn; int peer = -1; bool sock_ok = false;
    bool need_sock = false; for (auto& s : steps) if (s.kind == 2 || s.kind == 5) need_sock = true;
    std::unique_ptr<io_uring_context::accept_stream> listener;
    if (need_sock) {
      for (int attempt = 0; attempt < 3 && !sock_ok; ++attempt) {
        // a port nobody listens on: let the kernel pick one, then hand it to the context's listener
        uint16_t port = 0;
        { int ps = ::socket(AF_INET6, SOCK_STREAM, 0); sockaddr_in6 a{}; a.sin6_family = AF_INET6; a.sin6_addr = in6addr_any; a.sin6_port = 0;
          if (ps >= 0 && ::bind(ps, (sockaddr*)&a, sizeof a) == 0) { socklen_t l = sizeof a; if (::getsockname(ps, (sockaddr*)&a, &l) == 0) port = ntohs(a.sin6_port); }
          if (ps >= 0) ::close(ps); }
        if (port == 0) break;
        listener.reset(new io_uring_context::accept_stream(open_listening_socket(sched, port)));
        Slot sl; g_conn_out = &conn;
        using S = decltype(next(*listener));
        Box<S> box;
        box.go(next(*listener), &sl);
        peer = ::socket(AF_INET, SOCK_STREAM, 0);
        sockaddr_in addr{}; addr.sin_family = AF_INET; addr.sin_port = htons(port); addr.sin_addr.s_addr = htonl(INADDR_LOOPBACK);
        bool connected = false;
        for (int k = 0; k < 500 && !connected; ++k) { if (::connect(peer, (sockaddr*)&addr, sizeof addr) == 0) connected = true; else std::this_thread::sleep_for(std::chrono::milliseconds(2)); }
        if (connected && wait_done(sl, WAIT_MS) && sl.chan == VALUE && conn) sock_ok = true;
        else { if (sl.signals.load() == 0) { sl.src.request_stop(); wait_done(sl, WAIT_MS); } ::close(peer); peer = -1; conn.reset(); }
        g_conn_out = nullptr;
        box.reset();
        if (!sock_ok) listener.reset();
      }
      if (!sock_ok) cx.label("no-loopback-socket");
    }
    size_t sock_sent = 0; std::vector<unsigned char> sock_got; bool cancelled_then_ok = false, had_cancel = false, overlap_read = false, producers_ran = false;
    long last_write_off = -1, last_write_end = -1;

    for (size_t si = 0; si < steps.size() && !cx.failed && !inconclusive; ++si) {
      Step st = steps[si];
      if (st.kind == 0) {           // write_at
        size_t off = (size_t)st.a, len = (size_t)st.b; std::vector<unsigned char> data(len); for (size_t i = 0; i < len; ++i) data[i] = pat(off + i, (int)si);
        size_t done_bytes = 0; int guard = 0;
        while (done_bytes < len && guard++ < 32 && !cx.failed) {
          Slot sl; using S = decltype(async_write_some_at(file, 0, as_bytes(span<const unsigned char>{data.data(), 1})));
          Box<S> box; box.go(async_write_some_at(file, (std::int64_t)(off + done_bytes), as_bytes(span<const unsigned char>{data.data() + done_bytes, len - done_bytes})), &sl);
          if (!wait_done(sl, WAIT_MS)) { inconclusive = true; break; }
          box.reset();
          if (sl.chan != VALUE || sl.value <= 0 || (size_t)sl.value > len - done_bytes) { cx.fail(P, "file_write_result", "async_write_some_at(%zu bytes at %zu) completed with %s %ld/%d", len - done_bytes, off + done_bytes, sl.chan == VALUE ? "value" : sl.chan == ERROR ? "error" : "done", sl.value, sl.err); break; }
          if (sl.thread != loop_id) cx.fail(P, "completion_thread", "a file write completed on a thread other than the one inside run()");
          if (model.size() < off + done_bytes + (size_t)sl.value) model.resize(off + done_bytes + (size_t)sl.value, 0);
          for (size_t i = 0; i < (size_t)sl.value; ++i) model[off + done_bytes + i] = data[done_bytes + i];
          done_bytes += (size_t)sl.value;
        }
        last_write_off = (long)off; last_write_end = (long)(off + len);
      } else if (st.kind == 1) {    // read_at
        size_t off = (size_t)st.a, len = (size_t)st.b; std::vector<unsigned char> buf(len, 0xEE);
        Slot sl; using S = decltype(async_read_some_at(file, 0, as_writable_bytes(span<unsigned char>{buf.data(), 1})));
        Box<S> box; box.go(async_read_some_at(file, (std::int64_t)off, as_writable_bytes(span<unsigned char>{buf.data(), len})), &sl);
        if (!wait_done(sl, WAIT_MS)) { inconclusive = true; break; }
        box.reset();
        size_t avail = off < model.size() ? std::min(len, model.size() - off) : 0;
        if (sl.chan != VALUE) { cx.fail(P, "file_read_result", "async_read_some_at(%zu bytes at %zu) completed with %s (%d)", len, off, sl.chan == ERROR ? "error" : "done", sl.err); break; }
        if ((size_t)sl.value > avail || (avail > 0 && sl.value <= 0)) { cx.fail(P, "file_read_count", "async_read_some_at(%zu bytes at %zu) of a %zu-byte file returned %ld (available: %zu)", len, off, model.size(), sl.value, avail); break; }
        for (size_t i = 0; i < (size_t)sl.value; ++i) if (buf[i] != model[off + i]) { cx.fail(P, "file_data", "byte %zu of the file reads back as %#x, it was written as %#x", off + i, buf[i], model[off + i]); break; }
        for (size_t i = (size_t)sl.value; i < len; ++i) if (buf[i] != 0xEE) { cx.fail(P, "buffer_overrun", "a read reported %ld bytes but wrote beyond them", sl.value); break; }
        if (sl.thread != loop_id) cx.fail(P, "completion_thread", "a file read completed on a thread other than the one inside run()");
        if (sl.value > 0 && last_write_off >= 0 && (long)off < last_write_end && (long)(off + (size_t)sl.value) > last_write_off) overlap_read = true;
      } else if ((st.kind == 2 || st.kind == 5) && sock_ok) {   // socket read: mode 0 data first, 1 parked then data, 2 stop before start, 3 stop while parked
        size_t len = 1 + (size_t)(st.b % 600); std::vector<unsigned char> buf(len, 0xEE);
        size_t send_n = 1 + (size_t)(st.a % 400);
        auto send_now = [&] { std::vector<unsigned char> d(send_n); for (size_t i = 0; i < send_n; ++i) d[i] = pat(sock_sent + i, 99); ssize_t w = ::send(peer, d.data(), d.size(), 0); if (w > 0) sock_sent += (size_t)w; };
        Slot sl; using S = decltype(async_read_some_at(*conn, 0, as_writable_bytes(span<unsigned char>{buf.data(), 1})));
        Box<S> box;
        bool pending_data = sock_got.size() < sock_sent;
        if (st.mode == 0 && !pending_data) { send_now(); pending_data = true; }
        if (st.mode == 2) sl.src.request_stop();
        box.go(async_read_some_at(*conn, 0, as_writable_bytes(span<unsigned char>{buf.data(), len})), &sl);
        bool late_data = false;
        if (st.mode == 1 && !pending_data) { std::this_thread::sleep_for(std::chrono::milliseconds(1)); send_now(); pending_data = true; }
        if (st.mode == 3) { std::this_thread::sleep_for(std::chrono::microseconds(200 * (st.a % 5))); sl.src.request_stop(); }
        if (st.mode >= 2) {
          had_cancel = true;
          if (!pending_data && !wait_done(sl, GRACE_MS)) {
            // the cancelled read has not completed although nothing can complete it but the cancellation: offer data and see whether that is what it was waiting for
            send_now(); late_data = true;
          }
        }
        if (!wait_done(sl, WAIT_MS)) { inconclusive = true; break; }
        box.reset();
        if (late_data) { cx.fail(P, "cancelled_read_waited_for_data", "a socket read whose stop token had fired (%s) did not complete until the peer sent data %d ms later; it then completed with %s", st.mode == 2 ? "before start" : "while parked", GRACE_MS, sl.chan == VALUE ? "value" : sl.chan == DONE ? "done" : "error"); }
        if (sl.chan == VALUE) {
          if (sl.value <= 0 || (size_t)sl.value > len) { cx.fail(P, "socket_read_count", "socket read into %zu bytes returned %ld", len, sl.value); break; }
          sock_got.insert(sock_got.end(), buf.begin(), buf.begin() + sl.value);
          if (had_cancel) cancelled_then_ok = true;
        } else if (sl.chan == DONE) {
          if (st.mode < 2) { cx.fail(P, "done_without_stop", "a socket read completed with done although its stop source never fired"); break; }
          for (size_t i = 0; i < len; ++i) if (buf[i] != 0xEE) { cx.fail(P, "cancelled_read_consumed_data", "a socket read that completed with done had received data into its buffer (the bytes are lost to later reads)"); break; }
        } else { cx.fail(P, "socket_read_error", "socket read completed with error %d", sl.err); break; }
        if (sl.thread != loop_id) cx.fail(P, "completion_thread", "a socket read completed on a thread other than the one inside run()");
      } else if (st.kind == 3) {    // concurrent producers
        int per = 1 + (int)(st.a % 4);
        std::vector<std::unique_ptr<Slot>> slots; for (int i = 0; i < 2 * per; ++i) slots.emplace_back(new Slot());
        using S = decltype(schedule(sched));
        std::vector<std::unique_ptr<Box<S>>> boxes(2 * (size_t)per);
        auto body = [&](int p) { for (int k = 0; k < per; ++k) { size_t i = (size_t)(p * per + k); boxes[i].reset(new Box<S>()); boxes[i]->go(schedule(sched), slots[i].get()); } };
        std::thread t1(body, 0), t2(body, 1); t1.join(); t2.join();
        for (auto& s : slots) { if (!wait_done(*s, WAIT_MS)) { inconclusive = true; break; } if (s->chan != VALUE) cx.fail(P, "schedule_result", "schedule() completed with %s", s->chan == DONE ? "done" : "error"); if (s->thread != loop_id) cx.fail(P, "completion_thread", "a scheduled item ran on a thread other than the one inside run()"); }
        if (inconclusive) { for (auto& s : slots) wait_done(*s, WAIT_MS); }
        boxes.clear(); producers_ran = true;
      } else if (st.kind == 4) {    // timer
        auto d = std::chrono::microseconds(100 + 400 * (st.a % 5));
        Slot sl; auto t0 = now(sched);
        using S = decltype(schedule_at(sched, t0 + d));
        Box<S> box; box.go(schedule_at(sched, t0 + d), &sl);
        if (st.mode == 3) sl.src.request_stop();
        if (!wait_done(sl, WAIT_MS)) { inconclusive = true; break; }
        auto t1 = now(sched);
        box.reset();
        if (sl.chan == VALUE && t1 - t0 < d) cx.fail(P, "timer_early", "schedule_at completed before its due time");
        if (sl.chan == DONE && st.mode != 3) cx.fail(P, "done_without_stop", "a timer completed with done although its stop source never fired");
        if (sl.chan == ERROR) cx.fail(P, "timer_error", "a timer completed with error %d", sl.err);
        if (sl.thread != loop_id) cx.fail(P, "completion_thread", "a timer completed on a thread other than the one inside run()");
      }
    }
    // drain the socket: everything the peer sent must arrive, intact and in order
    if (sock_ok && !cx.failed && !inconclusive) {
      int guard = 0;
      while (sock_got.size() < sock_sent && guard++ < 64) {
        std::vector<unsigned char> buf(1024, 0xEE); Slot sl;
        using S = decltype(async_read_some_at(*conn, 0, as_writable_bytes(span<unsigned char>{buf.data(), 1})));
        Box<S> box; box.go(async_read_some_at(*conn, 0, as_writable_bytes(span<unsigned char>{buf.data(), buf.size()})), &sl);
        if (!wait_done(sl, 3000)) {
          // bytes that the peer sent can no longer be read: something consumed them
          sl.src.request_stop(); if (!wait_done(sl, WAIT_MS)) inconclusive = true;
          box.reset();
          if (!inconclusive) cx.fail(P, "bytes_lost", "the peer sent %zu bytes, reads delivered %zu and the connection has nothing more to deliver", sock_sent, sock_got.size());
          break;
        }
        box.reset();
        if (sl.chan != VALUE || sl.value <= 0) { cx.fail(P, "socket_read_result", "draining read completed with %s %ld", sl.chan == VALUE ? "value" : sl.chan == DONE ? "done" : "error", sl.value); break; }
        sock_got.insert(sock_got.end(), buf.begin(), buf.begin() + sl.value);
      }
      if (!cx.failed && !inconclusive) {
        if (sock_got.size() != sock_sent) cx.fail(P, "bytes_lost", "the peer sent %zu bytes, reads delivered %zu", sock_sent, sock_got.size());
        else for (size_t i = 0; i < sock_got.size(); ++i) if (sock_got[i] != pat(i, 99)) { cx.fail(P, "socket_data", "byte %zu delivered by the reads is %#x, the peer sent %#x", i, sock_got[i], pat(i, 99)); break; }
      }
    }
    if (peer >= 0) ::close(peer);
    conn.reset(); listener.reset();
    loop_stop.request_stop();
    loop.join();
    nt = overlap_read || cancelled_then_ok || producers_ran;
    if (overlap_read) cx.label("read-overlapping-earlier-write");
    if (cancelled_then_ok) cx.label("socket-reused-after-cancelled-read");
    if (had_cancel) cx.label("socket-read-cancelled");
    if (producers_ran) cx.label("concurrent-producers");
  }
  ::unlink(path.c_str());
  if (inconclusive) { cx.label("inconclusive(wait budget)"); nt = false; }
  cx.nontrivial = nt;
}
