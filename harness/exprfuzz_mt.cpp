// exprfuzz_mt — the generated static shapes of exprfuzz, driven by several
// threads under the deterministic scheduler: deferred leaf completions, context
// items and the root stop request are fired concurrently, so interleavings at
// atomic-operation granularity *inside* when_all / stop_when / when_any /
// let_value_with_stop_source / any_sender_of / ... are explored.
//
// Model-free oracles (they hold for every linearisation): the root receiver is
// completed exactly once, and it is completed once every started leaf has
// completed and nothing is in flight (no lost completion); no deadlock or
// livelock; every tracked object and child operation state destroyed exactly
// once, none while running; nothing touches the operation after the receiver
// destroyed it inside its completion (ASan); inplace_stop_source's dangling
// callback assertion when the receiver's stop source is destroyed afterwards.
#include "exprfuzz/runner.hpp"
#include "exprfuzz/plan.hpp"
#include "detsched/api.hpp"

#include <thread>

namespace ef {

static int g_workers = 2;
static int g_stopper_yields = 0;
static bool g_stop_from_thread = false;

void begin_run(const ShapeDesc& sd, RunCtl& ctl, RunState& rs) {
  sr::world_ptr() = &rs.w;
  sr::World& w = rs.w;
  w.spec = ctl.plan.spec;
  for (auto& kv : ctl.plan.node_arg) w.node_arg[kv.first] = kv.second;
  w.tracked_faults = false;
  rs.ledger.id = 1;
  if (rs.use_inplace) rs.inplace = new unifex::inplace_stop_source();
  ctl.out = Outcome();
  (void)sd;
}

void drive(const ShapeDesc& sd, RunCtl& ctl, RunState& rs, const std::function<void()>& do_start) {
  sr::World& w = rs.w;
  Plan& plan = ctl.plan;
  auto running_leaves = [&] { int n = 0; for (auto& v : w.runs) for (auto& r : v) if (r.started && !r.completed) n++; return n; };
  bool delete_source = false;
  auto do_stop = [&] {
    if (w.root_stop_requested) return;
    w.root_stop_requested = true;
    if (running_leaves() > 0) ctl.out.stops_while_running++;
    SR_TR("T%d: request_stop() on the root stop source", detsched::current_thread());
    if (rs.inplace) rs.inplace->request_stop();
  };
  w.request_root_stop = do_stop;
  if (plan.destroy_on_completion) {
    w.on_root_complete = [&] {
      SR_TR("T%d: root receiver destroys the operation state inside its completion", detsched::current_thread());
      rs.destroy_op();
      delete_source = true;
    };
  }
  if (plan.stop_before_start) do_stop();
  if (plan.never_start) { SR_TR("operation is connected but never started"); return; }
  ctl.out.started = true;
  w.started = true; w.in_start = true;

  bool all_done = false;   // set when the starter and all workers should stop looking for events
  int idle_workers = 0;
  auto worker = [&](int me) {
    int rounds = 0;
    for (;;) {
      detsched::step();
      if (w.pending.empty()) {
        if (all_done) break;
        if (w.root_start_returned && (w.root_signals > 0 || running_leaves() == 0)) break;
        if (++rounds > 2000) break;
        detsched::yield_now();
        continue;
      }
      std::sort(w.pending.begin(), w.pending.end(), [](const sr::PendingEvent& a, const sr::PendingEvent& b) { return std::tie(a.leaf, a.inst, a.kind) < std::tie(b.leaf, b.inst, b.kind); });
      size_t idx = (size_t)(me + rounds) % w.pending.size();
      sr::PendingEvent ev = w.pending[idx];
      w.pending.erase(w.pending.begin() + (long)idx);
      if (ev.kind != 2) ctl.out.had_deferred = true;
      SR_TR("T%d: fire %s%d#%d kind%d", detsched::current_thread(), ev.kind == 2 ? "ctx-item " : "leaf", ev.kind == 2 ? ev.leaf - 900 : ev.leaf, ev.inst, ev.kind);
      ev.fire(ev.op, ev.kind);
      ctl.out.steps++;
    }
    (void)idle_workers;
  };
  std::vector<std::thread> th;
  for (int i = 0; i < g_workers; ++i) th.emplace_back(worker, i);
  std::thread stopper;
  if (plan.stop_tokens > 0 && g_stop_from_thread) stopper = std::thread([&] {
    for (int k = 0; k < g_stopper_yields; ++k) detsched::yield_now();
    if (w.root_signals == 0) do_stop();
  });
  SR_TR("T0: start()");
  do_start();
  w.in_start = false; w.root_start_returned = true;
  // the starting thread helps firing events, then flushes leaves that only react to stop
  worker(g_workers);
  for (auto& t : th) t.join();
  if (stopper.joinable()) stopper.join();
  // drain whatever became pending while the workers were leaving, then flush stop-only leaves
  for (int guard = 0; guard < 50; ++guard) {
    if (!w.pending.empty()) { worker(g_workers); continue; }
    if (w.root_signals == 0 && !w.root_stop_requested && running_leaves() > 0) { do_stop(); continue; }
    break;
  }
  all_done = true;
  // ---- model-free oracles at quiescence
  if (w.root_signals == 0) {
    if (running_leaves() == 0 && w.pending.empty())
      SR_FAIL("C01", "lost_completion", "every leaf that was started has completed and nothing is in flight, but the receiver was never completed [%s]", sd.text);
    else { w.abandoned = true; vk::ctx().label("abandoned(never-completing leaf)"); }
  }
  for (auto& v : w.runs) for (auto& r : v) { if (r.started) ctl.out.leaves_started++; if (r.completed && r.chan != sr::VALUE) ctl.out.nonvalue_leaf = true; }
  if (delete_source && rs.inplace) { delete rs.inplace; rs.inplace = nullptr; }
}

void end_run(const ShapeDesc& sd, RunCtl& ctl, RunState& rs) {
  sr::World& w = rs.w;
  Outcome& o = ctl.out;
  o.signals = w.root_signals; o.result = w.root;
  if (!o.started && w.root_signals != 0) SR_FAIL("C01", "completion_without_start", "the receiver was completed although the operation was never started [%s]", sd.text);
  if (o.started && !w.abandoned && w.root_signals != 1) SR_FAIL("C01", "completion_count", "the operation delivered %d completion signals [%s]", w.root_signals, sd.text);
  if (!w.pending.empty()) SR_FAIL("C02", "pending_after_teardown", "%zu operation(s) still registered as in flight after the operation state was destroyed [%s]", w.pending.size(), sd.text);
  if (!w.abandoned) {
    if (!w.live.empty()) SR_FAIL("C02", "tracked_leak", "%zu value object(s) were never destroyed [%s]", w.live.size(), sd.text);
    if (w.connects != w.op_destroys) SR_FAIL("C02", "child_op_leak", "%ld child operation states were created but %ld destroyed [%s]", w.connects, w.op_destroys, sd.text);
  }
  if (rs.ledger.allocs != rs.ledger.deallocs) SR_FAIL("C02", "allocator_imbalance", "allocator: %ld allocations, %ld deallocations [%s]", rs.ledger.allocs, rs.ledger.deallocs, sd.text);
  for (auto& l : rs.ledger_n) if (l.allocs != l.deallocs) SR_FAIL("C02", "allocator_imbalance", "allocator #%ld: %ld allocations, %ld deallocations [%s]", l.id, l.allocs, l.deallocs, sd.text);
  if (rs.inplace) { delete rs.inplace; rs.inplace = nullptr; }   // asserts "no dangling callbacks" inside libunifex
  sr::world_ptr() = nullptr;
}

}  // namespace ef

extern "C" const char* vk_harness_name() { return "exprfuzz_mt"; }
const char* vk_nontrivial_rule() {
  return "case = shape from the static catalogue (root token inplace_stop_token) + per-leaf behaviour as in exprfuzz + 1-3 worker threads firing deferred completions and context items + "
         "a root stop request from a further thread after k yields (or before start / from inside a leaf's start()) + receiver destroys the operation inside its completion or not + "
         "generated schedule (preemption list / random walk / PCT, detsched). non-trivial = >=2 leaves started and at least one deferred completion or a stop while a leaf was running, "
         "and the schedule had >=1 preemption; distinct = hash of decoded plan + schedule choices";
}

void vk_run_case(vk::Choice& c) {
  using namespace ef;
  auto& cx = vk::ctx();
  auto& shapes = registry().shapes;
  static std::vector<const ShapeDesc*> usable;
  if (usable.empty()) {
    std::sort(shapes.begin(), shapes.end(), [](const ShapeDesc* a, const ShapeDesc* b) { return a->id < b->id; });
    for (auto* s : shapes) if (s->cfg & 1) usable.push_back(s);   // only shapes whose root token is an inplace_stop_token (the harness token is single-threaded)
  }
  if (usable.empty()) { cx.fail("*", "no_shapes", "no shapes registered"); return; }
  const ShapeDesc* chosen = usable[c.upto((uint32_t)usable.size())];
  if (long forced = cx.argi("shape", -1); forced >= 0) {
    chosen = nullptr;
    for (auto* s : shapes) if (s->id == forced) chosen = s;
    if (!chosen) { cx.discard = true; cx.discard_why = "shape id not in this catalogue"; return; }
  }
  const ShapeDesc& sd = *chosen;
  if (known("sender_for_hijacks_type_erasure_builtins")) {
    for (int i = 0; i < sd.nnodes; ++i) if (sd.nodes[i].kind == K_ANY && sd.nodes[sd.nodes[i].child[0]].kind == K_SCHEDULE) { cx.discard = true; cx.discard_why = "known:sender_for_hijacks_type_erasure_builtins"; return; }
  }
  if (known("stop_source_destroyed_in_callback")) {
    // under concurrency the operation can be completed from inside the fused source's callback by when_all/when_any/
    // stop_when internals too (not only by a leaf), so every shape with let_value_with_stop_source is in the known class
    for (int i = 0; i < sd.nnodes; ++i) if (sd.nodes[i].kind == K_LVWSS) { cx.discard = true; cx.discard_why = "known:stop_source_destroyed_in_callback(let_value_with_stop_source under concurrency)"; return; }
  }
  RunCtl ctl; ctl.c = &c;
  ctl.plan = decode_plan(sd, c);
  ctl.plan.fault_node = -1; ctl.plan.anon_fault = -1; ctl.plan.stop_after_completion = false; ctl.plan.stop_call_node = -1;
  // more deferred work makes for more concurrency: inline completions become deferred with probability 1/2
  for (auto& s : ctl.plan.spec) for (auto& at : s.attempts) if (at.timing == 0 && c.flag()) at.timing = 1;
  g_workers = 1 + (int)c.upto(3);
  g_stop_from_thread = true;
  g_stopper_yields = (int)c.upto(24);
  cx.desc = vk::sfmt("shape%d cfg%d: %s :: %s | workers=%d stopper-after-%d-yields", sd.id, sd.cfg, sd.text, ctl.plan.text.c_str(), g_workers, g_stopper_yields);
  cx.tr("CASE %s", cx.desc.c_str());
  Plan saved = ctl.plan;
  Outcome out;
  detsched::Options o; o.max_steps = 60000;
  auto res = detsched::run(c, o, [&] {
    ctl.plan = saved;
    sd.run(sd, ctl);
    if (!detsched::in_dry_run()) out = ctl.out;
  });
  cx.desc += " | " + res.schedule;
  cx.nontrivial = !res.inconclusive && out.started && out.leaves_started >= 2 && (out.had_deferred || out.stops_while_running > 0) && (res.preemptions > 0 || res.strategy != 0);
  if (res.inconclusive) cx.label("inconclusive(step budget)");
  if (out.stops_while_running) cx.label("stop-while-running");
  if (saved.destroy_on_completion) cx.label("destroy-in-completion");
  if (res.preemptions) cx.label("preempted");
  cx.label(vk::sfmt("workers%d", g_workers));
  for (int i = 0; i < sd.nnodes; ++i) cx.label(std::string("k:") + kind_name(sd.nodes[i].kind));
}
