// C03 — stop-token protocol under schedule control.
//
// Generated scripts: 2-4 threads over one target stop source (plain
// inplace_stop_source, fused_stop_source over two upstream sources, or an
// inplace_stop_token_adapter over a harness token) and up to 7 callback slots.
// Thread ops: register / deregister own slots, request_stop on any source,
// poll stop_requested.  Callback bodies: no-op, deregister self, deregister a
// victim slot, re-entrant request_stop, poll.  Every event gets a logical
// timestamp (only one thread runs at a time under detsched); the oracles are
// evaluated on the recorded history.
#include "kit/case.hpp"
#include "detsched/api.hpp"

#include <unifex/fused_stop_source.hpp>
#include <unifex/inplace_stop_token.hpp>

#include <deque>
#include <map>
#include <memory>
#include <optional>
#include <thread>
#include <vector>

using namespace unifex;

namespace {
const char* P = "C03";

// ---- a small, obviously-correct harness stop source (upstream of the adapter variant)
struct HCbBase { virtual void run() noexcept = 0; bool done = false; int running_on = -1; HCbBase* next = nullptr; };
struct HSource {
  bool stopped = false; bool notifying = false; std::vector<HCbBase*> cbs;
  bool request_stop() noexcept {
    detsched::step();
    if (stopped) return true;
    stopped = true;
    while (!cbs.empty()) {
      HCbBase* cb = cbs.back(); cbs.pop_back();
      cb->running_on = detsched::current_thread();
      detsched::step();
      cb->run();
      cb->done = true;
      detsched::step();
    }
    return false;
  }
};
template <class F> struct HCallback;
struct HToken {
  HSource* s = nullptr;
  template <class F> using callback_type = HCallback<F>;
  bool stop_requested() const noexcept { detsched::step(); return s && s->stopped; }
  bool stop_possible() const noexcept { return s != nullptr; }
};
template <class F> struct HCallback : HCbBase {
  HSource* s; F f; bool registered = false;
  template <class T> HCallback(HToken t, T&& fn) noexcept : s(t.s), f((T &&) fn) {
    detsched::step();
    if (!s) return;
    if (s->stopped) { running_on = detsched::current_thread(); f(); done = true; }
    else { s->cbs.push_back(this); registered = true; }
    detsched::step();
  }
  ~HCallback() {
    detsched::step();
    if (!registered) return;
    for (size_t i = 0; i < s->cbs.size(); ++i) if (s->cbs[i] == this) { s->cbs.erase(s->cbs.begin() + (long)i); return; }
    if (running_on == detsched::current_thread()) return;  // deregistered from inside itself
    while (!done) detsched::yield_now();
  }
  void run() noexcept override { f(); }
};

enum EvKind { REQ_B, REQ_E, REG_B, REG_E, DEREG_B, DEREG_E, BODY_B, BODY_E, POLL_B, POLL_E };
struct Ev { long seq; EvKind k; int thread; int slot; int gen; int val; int src; };

struct World;
struct Body {
  World* w; int slot; int gen;
  void operator()() noexcept;
};

struct Slot {
  int owner = 0; int kind = 0; int victim = -1; bool is_victim = false;
  // heap-allocated with exact size and freed on deregistration, so that any later touch by the library is an ASan use-after-free
  std::unique_ptr<inplace_stop_callback<Body>> cb;
  bool constructed = false;   // emplace() has returned and nobody destroyed it since
  int gen = 0;
};

struct World {
  int variant = 0;
  // variant 0: target_plain.  1: up[0],up[1] -> fused.  2: hsrc -> adapter
  std::unique_ptr<inplace_stop_source> plain;
  std::unique_ptr<inplace_stop_source> up[2];
  std::unique_ptr<fused_stop_source<inplace_stop_token, inplace_stop_token>> fused;
  HSource hsrc;
  std::unique_ptr<inplace_stop_token_adapter<HToken>> adapter;
  inplace_stop_token tok;
  std::deque<Slot> slots;
  std::vector<Ev> log;
  long seq = 0;
  bool reentrant_dereg = false;

  void ev(EvKind k, int slot, int gen, int val = 0, int src = 0) { log.push_back(Ev{seq++, k, detsched::current_thread(), slot, gen, val, src}); }
  int nsources() const { return variant == 0 ? 1 : variant == 1 ? 3 : 1; }
  bool do_request(int src) {
    if (variant == 0) return plain->request_stop();
    if (variant == 1) return src == 0 ? up[0]->request_stop() : src == 1 ? up[1]->request_stop() : fused->request_stop();
    return hsrc.request_stop();
  }
  bool do_poll() { return tok.stop_requested(); }
  void dereg(int s) {
    Slot& sl = slots[(size_t)s];
    if (!sl.constructed) return;
    sl.constructed = false;
    int gen = sl.gen;
    ev(DEREG_B, s, gen);
    sl.cb.reset();
    ev(DEREG_E, s, gen);
  }
};

void Body::operator()() noexcept {
  World* W = w; int s = slot; int g = gen;  // copy: a self-deregistration destroys *this
  Slot& sl = W->slots[(size_t)s];
  int kind = sl.kind, victim = sl.victim;
  W->ev(BODY_B, s, g);
  detsched::step();
  switch (kind) {
    case 1:  // deregister self (only when fully constructed: not from inside its own constructor)
      if (sl.constructed && sl.gen == g) { W->reentrant_dereg = true; W->dereg(s); }
      break;
    case 2:
      if (victim >= 0 && W->slots[(size_t)victim].constructed) { W->reentrant_dereg = true; W->dereg(victim); }
      break;
    case 3: {
      W->ev(REQ_B, -1, 0, 0, W->variant == 1 ? 2 : 0);
      bool r = W->do_request(W->variant == 1 ? 2 : 0);
      W->ev(REQ_E, -1, 0, r ? 1 : 0, W->variant == 1 ? 2 : 0);
      break;
    }
    case 4: {
      W->ev(POLL_B, -1, 0);
      bool r = W->do_poll();
      W->ev(POLL_E, -1, 0, r ? 1 : 0);
      break;
    }
    default: break;
  }
  detsched::step();
  W->ev(BODY_E, s, g);
}

struct OpRec { int kind; int arg; };  // 0 reg slot, 1 dereg slot, 2 request src, 3 poll
struct Script {
  int variant, T, S;
  std::vector<int> owner, kind, victim; std::vector<bool> is_victim;
  std::vector<std::vector<OpRec>> ops;
};

Script decode(vk::Choice& c) {
  Script sc;
  unsigned v = c.upto(4); sc.variant = v <= 1 ? 0 : (int)v - 1;
  sc.T = 2 + (int)c.upto(3);
  sc.S = 1 + (int)c.upto(6);
  sc.owner.resize((size_t)sc.S); sc.kind.assign((size_t)sc.S, 0); sc.victim.assign((size_t)sc.S, -1); sc.is_victim.assign((size_t)sc.S, false);
  for (int i = 0; i < sc.S; ++i) { sc.owner[(size_t)i] = (int)c.upto((uint32_t)sc.T); sc.kind[(size_t)i] = (int)c.upto(5); }
  for (int i = 0; i < sc.S; ++i) {
    if (sc.kind[(size_t)i] != 2) continue;
    // pick a victim that is a plain slot and nobody's victim yet
    int start = (int)c.upto((uint32_t)sc.S), found = -1;
    for (int d = 0; d < sc.S; ++d) { int j = (start + d) % sc.S; if (j != i && sc.kind[(size_t)j] == 0 && !sc.is_victim[(size_t)j]) { found = j; break; } }
    if (found < 0) sc.kind[(size_t)i] = 0; else { sc.victim[(size_t)i] = found; sc.is_victim[(size_t)found] = true; }
  }
  sc.ops.resize((size_t)sc.T);
  for (int t = 0; t < sc.T; ++t) {
    int n = (int)c.upto(7);
    std::vector<int> state((size_t)sc.S, 0);  // 0 never, 1 registered, 2 deregistered (may re-register if plain)
    for (int k = 0; k < n; ++k) {
      unsigned what = c.upto(6);
      if (what <= 1) {  // register one of my slots
        int start = (int)c.upto((uint32_t)sc.S), f = -1;
        for (int d = 0; d < sc.S; ++d) { int j = (start + d) % sc.S; bool once = sc.kind[(size_t)j] == 1 || sc.is_victim[(size_t)j]; if (sc.owner[(size_t)j] == t && (state[(size_t)j] == 0 || (state[(size_t)j] == 2 && !once))) { f = j; break; } }
        if (f >= 0) { sc.ops[(size_t)t].push_back({0, f}); state[(size_t)f] = 1; continue; }
        what = 4;
      }
      if (what == 2) {  // deregister
        int start = (int)c.upto((uint32_t)sc.S), f = -1;
        for (int d = 0; d < sc.S; ++d) { int j = (start + d) % sc.S; if (sc.owner[(size_t)j] == t && state[(size_t)j] == 1 && sc.kind[(size_t)j] != 1 && !sc.is_victim[(size_t)j]) { f = j; break; } }
        if (f >= 0) { sc.ops[(size_t)t].push_back({1, f}); state[(size_t)f] = 2; continue; }
        what = 5;
      }
      if (what == 3 || what == 4) { int nsrc = sc.variant == 1 ? 3 : 1; sc.ops[(size_t)t].push_back({2, (int)c.upto((uint32_t)nsrc)}); continue; }
      sc.ops[(size_t)t].push_back({3, 0});
    }
  }
  return sc;
}

std::string describe(const Script& sc) {
  std::string d = vk::sfmt("%s T=%d slots=[", sc.variant == 0 ? "inplace_stop_source" : sc.variant == 1 ? "fused_stop_source<2>" : "inplace_stop_token_adapter<HToken>", sc.T);
  static const char* kn[] = {"noop", "dereg-self", "dereg-victim", "re-request", "poll"};
  for (int i = 0; i < sc.S; ++i) d += vk::sfmt("%d:T%d:%s%s ", i, sc.owner[(size_t)i], kn[sc.kind[(size_t)i]], sc.victim[(size_t)i] >= 0 ? vk::sfmt("->%d", sc.victim[(size_t)i]).c_str() : "");
  d += "]";
  for (int t = 0; t < sc.T; ++t) {
    d += vk::sfmt(" T%d:", t + 1);
    for (auto& o : sc.ops[(size_t)t]) d += o.kind == 0 ? vk::sfmt("reg%d ", o.arg) : o.kind == 1 ? vk::sfmt("dereg%d ", o.arg) : o.kind == 2 ? vk::sfmt("req%d ", o.arg) : std::string("poll ");
  }
  return d;
}

void run_script(const Script& sc, bool check, bool& nontrivial) {
  auto& cx = vk::ctx();
  World W; W.variant = sc.variant;
  if (sc.variant == 0) { W.plain = std::make_unique<inplace_stop_source>(); W.tok = W.plain->get_token(); }
  else if (sc.variant == 1) {
    W.up[0] = std::make_unique<inplace_stop_source>(); W.up[1] = std::make_unique<inplace_stop_source>();
    W.fused = std::make_unique<fused_stop_source<inplace_stop_token, inplace_stop_token>>();
    W.fused->register_callbacks(W.up[0]->get_token(), W.up[1]->get_token());
    W.tok = W.fused->get_token();
  } else {
    W.adapter = std::make_unique<inplace_stop_token_adapter<HToken>>();
    W.tok = W.adapter->subscribe(HToken{&W.hsrc});
  }
  W.slots.resize((size_t)sc.S);
  for (int i = 0; i < sc.S; ++i) { auto& s = W.slots[(size_t)i]; s.owner = sc.owner[(size_t)i]; s.kind = sc.kind[(size_t)i]; s.victim = sc.victim[(size_t)i]; s.is_victim = sc.is_victim[(size_t)i]; }
  std::vector<std::thread> th;
  for (int t = 0; t < sc.T; ++t) {
    th.emplace_back([&W, &sc, t] {
      for (auto& o : sc.ops[(size_t)t]) {
        detsched::step();
        if (o.kind == 0) {
          Slot& sl = W.slots[(size_t)o.arg];
          int gen = ++sl.gen;
          W.ev(REG_B, o.arg, gen);
          sl.cb.reset(new inplace_stop_callback<Body>(W.tok, Body{&W, o.arg, gen}));
          sl.constructed = true;
          W.ev(REG_E, o.arg, gen);
        } else if (o.kind == 1) {
          W.dereg(o.arg);
        } else if (o.kind == 2) {
          W.ev(REQ_B, -1, 0, 0, o.arg);
          bool r = W.do_request(o.arg);
          W.ev(REQ_E, -1, 0, r ? 1 : 0, o.arg);
        } else {
          W.ev(POLL_B, -1, 0);
          bool r = W.do_poll();
          W.ev(POLL_E, -1, 0, r ? 1 : 0);
        }
      }
    });
  }
  for (auto& t : th) t.join();
  long end_of_threads = W.seq;
  for (int i = 0; i < sc.S; ++i) W.dereg(i);
  if (sc.variant == 1) W.fused->deregister_callbacks();
  if (sc.variant == 2) W.adapter->unsubscribe();
  W.fused.reset(); W.adapter.reset(); W.plain.reset(); W.up[0].reset(); W.up[1].reset();  // destructors assert "no dangling callbacks"

  // ------------------------------------------------------------------ oracles over the history
  struct Inst { long reg_b = -1, reg_e = -1, dereg_b = -1, dereg_e = -1, body_b = -1, body_e = -1; int runs = 0; int reg_thread = -1, body_thread = -1, dereg_thread = -1; };
  std::map<std::pair<int, int>, Inst> inst;
  struct Req { long b, e; int thread, ret, src; };
  std::vector<Req> reqs; std::vector<Req> open;
  struct Poll { long b, e; int val; };
  std::vector<Poll> polls; std::map<int, long> poll_open;
  for (auto& e : W.log) {
    if (cx.tracing) {
      static const char* kn[] = {"request_stop begin", "request_stop end", "register begin", "register end", "deregister begin", "deregister end", "callback body begin", "callback body end", "stop_requested begin", "stop_requested end"};
      cx.tr("#%ld T%d %s slot=%d gen=%d val=%d src=%d", e.seq, e.thread, kn[e.k], e.slot, e.gen, e.val, e.src);
    }
    auto key = std::make_pair(e.slot, e.gen);
    switch (e.k) {
      case REG_B: inst[key].reg_b = e.seq; inst[key].reg_thread = e.thread; break;
      case REG_E: inst[key].reg_e = e.seq; break;
      case DEREG_B: inst[key].dereg_b = e.seq; inst[key].dereg_thread = e.thread; break;
      case DEREG_E: inst[key].dereg_e = e.seq; break;
      case BODY_B: { auto& in = inst[key]; in.runs++; if (in.body_b < 0) { in.body_b = e.seq; in.body_thread = e.thread; } break; }
      case BODY_E: inst[key].body_e = e.seq; break;
      case REQ_B: open.push_back(Req{e.seq, -1, e.thread, -1, e.src}); break;
      case REQ_E: for (size_t i = open.size(); i-- > 0;) if (open[i].thread == e.thread && open[i].src == e.src) { open[i].e = e.seq; open[i].ret = e.val; reqs.push_back(open[i]); open.erase(open.begin() + (long)i); break; } break;
      case POLL_B: poll_open[e.thread] = e.seq; break;
      case POLL_E: polls.push_back(Poll{poll_open[e.thread], e.seq, e.val}); break;
    }
  }
  if (!check) return;
  long min_req_b = -1, max_req_e = -1, min_req_e = -1; long winners_max_e = -1; int nwin = 0; long first_winner_e = -1;
  std::map<int, int> winners_per_src, calls_per_src;
  for (auto& r : reqs) {
    if (min_req_b < 0 || r.b < min_req_b) min_req_b = r.b;
    if (r.e > max_req_e) max_req_e = r.e;
    if (min_req_e < 0 || r.e < min_req_e) min_req_e = r.e;
    calls_per_src[r.src]++;
    if (r.ret == 0) { winners_per_src[r.src]++; nwin++; if (r.e > winners_max_e) winners_max_e = r.e; if (first_winner_e < 0 || r.e < first_winner_e) first_winner_e = r.e; }
  }
  // (6) exactly one request_stop per directly-driven source observes that it was first
  for (auto& kv : calls_per_src) {
    int src = kv.first; int wins = winners_per_src.count(src) ? winners_per_src[src] : 0;
    bool all_visible = !(sc.variant == 1 && src == 2);  // the fused source is also requested internally by its upstream callbacks
    if (wins > 1) cx.fail(P, "two_first_requesters", "%d request_stop() calls on source %d reported being first", wins, src);
    if (all_visible && wins != 1) cx.fail(P, "no_first_requester", "%d request_stop() calls on source %d, %d reported being first", kv.second, src, wins);
  }
  for (auto& kv : inst) {
    const Inst& in = kv.second; int s = kv.first.first, g = kv.first.second;
    if (in.reg_b < 0) continue;
    // (1) at most once
    if (in.runs > 1) cx.fail(P, "callback_ran_twice", "callback slot %d gen %d ran %d times", s, g, in.runs);
    // (4)/(9) never without a request that began before
    if (in.runs > 0 && (min_req_b < 0 || in.body_b < min_req_b)) cx.fail(P, "callback_without_request", "callback slot %d gen %d ran although no request_stop had begun", s, g);
    // (2) registered before any request began, deregistration began after every first-requester call returned => exactly once
    if (nwin > 0 && in.reg_e >= 0 && in.reg_e < min_req_b && in.dereg_b > winners_max_e && in.runs != 1)
      cx.fail(P, "callback_missed", "callback slot %d gen %d was registered (seq %ld) before any request_stop began (%ld) and deregistered (%ld) after the notifying call(s) returned (%ld) but ran %d times", s, g, in.reg_e, min_req_b, in.dereg_b, winners_max_e, in.runs);
    // (3) registration began after a first-requester call returned => runs inside the constructor on that thread
    if (first_winner_e >= 0 && in.reg_b > first_winner_e) {
      if (!(in.runs == 1 && in.body_b > in.reg_b && in.body_e < in.reg_e && in.body_thread == in.reg_thread))
        cx.fail(P, "late_registration_not_inline", "callback slot %d gen %d registered after request_stop had returned but did not run synchronously inside registration (runs=%d)", s, g, in.runs);
    }
    // (5) after deregistration returns the callback is not running and never runs
    if (in.dereg_e >= 0) {
      if (in.body_b > in.dereg_e) cx.fail(P, "callback_after_deregistration", "callback slot %d gen %d began (seq %ld) after its deregistration returned (%ld)", s, g, in.body_b, in.dereg_e);
      bool self = in.body_thread == in.dereg_thread && in.body_b < in.dereg_b && in.body_e > in.dereg_e;
      if (in.body_b >= 0 && in.body_b < in.dereg_e && (in.body_e < 0 || in.body_e > in.dereg_e) && !self)
        cx.fail(P, "deregistration_returned_while_running", "deregistration of slot %d gen %d returned (seq %ld) while its callback was still executing on T%d (body %ld..%ld)", s, g, in.dereg_e, in.body_thread, in.body_b, in.body_e);
    }
  }
  // (7) stop_requested(): false before any request began, true after any first-requester call returned, never reverts
  long first_true_e = -1;
  for (auto& p : polls) {
    if (p.val && (min_req_b < 0 || p.e < min_req_b)) cx.fail(P, "stop_requested_without_request", "stop_requested() returned true before any request_stop began");
    if (!p.val && first_winner_e >= 0 && p.b > first_winner_e) cx.fail(P, "stop_requested_false_after_request", "stop_requested() returned false (seq %ld) after request_stop had returned (seq %ld)", p.b, first_winner_e);
    if (p.val && (first_true_e < 0 || p.e < first_true_e)) first_true_e = p.e;
  }
  for (auto& p : polls) if (!p.val && first_true_e >= 0 && p.b > first_true_e) cx.fail(P, "stop_requested_reverted", "stop_requested() returned false (seq %ld) after an earlier call had returned true (seq %ld)", p.b, first_true_e);

  // non-triviality: a request overlapping a (de)registration on another thread, or a re-entrant deregistration
  bool overlap = false;
  for (auto& r : reqs) for (auto& kv : inst) {
    const Inst& in = kv.second;
    if (in.reg_b >= 0 && in.reg_thread != r.thread && in.reg_b < r.e && in.reg_e > r.b) overlap = true;
    if (in.dereg_b >= 0 && in.dereg_b < end_of_threads && in.dereg_thread != r.thread && in.dereg_b < r.e && in.dereg_e > r.b) overlap = true;
  }
  nontrivial = overlap || W.reentrant_dereg;
  if (overlap) cx.label("request-overlaps-(de)registration");
  if (W.reentrant_dereg) cx.label("re-entrant-deregistration");
}

}  // namespace

extern "C" const char* vk_harness_name() { return "c03_stop"; }
const char* vk_nontrivial_rule() {
  return "scripts decoded from rapidcheck byte strings: target in {inplace_stop_source, fused_stop_source over 2 upstream sources, "
         "inplace_stop_token_adapter over a harness token}, 2-4 threads x <=6 ops {register, deregister, request_stop(any source), stop_requested}, "
         "<=7 callback slots with bodies {noop, deregister self, deregister victim slot, re-entrant request_stop, poll}; schedule = "
         "preemption list / random walk / PCT decoded from the same bytes (detsched, atomic-operation granularity); "
         "non-trivial = a request_stop interval overlapping a registration or deregistration on another thread, or a re-entrant deregistration executed; "
         "distinct = hash of decoded script + schedule choices";
}

void vk_run_case(vk::Choice& c) {
  auto& cx = vk::ctx();
  Script sc = decode(c);
  cx.desc = describe(sc);
  bool nt = false;
  detsched::Options o; o.max_steps = 30000;
  auto res = detsched::run(c, o, [&] { bool ignore = false; run_script(sc, !detsched::in_dry_run(), detsched::in_dry_run() ? ignore : nt); });
  cx.desc += " | " + res.schedule;
  cx.nontrivial = nt && !res.inconclusive;
  cx.label(vk::sfmt("variant%d", sc.variant));
  cx.label(vk::sfmt("strategy%d", res.strategy));
  if (res.inconclusive) cx.label("inconclusive(step budget)");
  if (res.preemptions) cx.label("preempted");
}
