// C19 (create_basic_sender, stop_on_request) — one winner between a natural completion delivered through a callback
// from another thread, a stop request from a third thread and the return of start(); late safe callbacks are no-ops.
// C++20, schedule-controlled.
//  subject 0/1: create_basic_sender<int>(body): the start event publishes a safe callback (subject 0) or, in plans without
//     a stop request, an unsafe callback (subject 1) for a completer thread; the callback event does set_value, the stop
//     event set_done.  The completer invokes the callback after a generated delay, possibly long after the operation has
//     completed and its storage has been freed (safe callbacks only); a stopper requests stop before start or after a
//     generated delay; the operation state is an exact-size heap block freed right after completion.
//  subject 2: stop_on_request(tok1, tok2) connected to a stoppable receiver: up to three threads request stop on the three
//     sources in generated order.
// Oracles: the receiver completes exactly once; done only if a stop was requested; with no stop request the value arrives;
// the stop event of the body runs at most once and never for an operation that was not started or had already completed;
// the start event does not run for a pre-stopped operation; the callback event runs at most once; a safe callback invoked
// after completion has no effect and touches nothing (ASan on the freed block); no deadlock / livelock verdict.
#include "kit/case.hpp"
#include "kit/dk.hpp"

#include <unifex/create_basic_sender.hpp>
#include <unifex/stop_on_request.hpp>

#include <functional>
#include <memory>
#include <thread>

using namespace unifex;

namespace {
const char* P = "C19";

struct World {
  int signals = 0; int chan = dk::NONE; long value = 0; long t_done = -1;
  int start_events = 0, stop_events = 0, callback_events = 0; long t_start_event = -1, t_stop_event = -1;
  bool stop_event_after_completion = false, stop_event_before_start = false;
  long t_stop_req = -1; bool published = false; bool completed_flag = false; bool first_call_done = false;
  std::function<void()> cb;     // what the completer calls
  inplace_stop_source* src = nullptr; int reentrant = 0;   // 1: the start event requests stop on the receiver's source itself, 2: the callback event does (same thread, nested inside the handler)
};
World* g_w;

struct Recv {
  inplace_stop_source* src;
  void fin(int chan, long v) noexcept {
    World& w = *g_w; w.signals++;
    if (w.signals > 1) { vk::ctx().fail(P, "double_completion", "the receiver was completed %d times (second: %s)", w.signals, dk::chan_name(chan)); return; }
    w.chan = chan; w.value = v; w.t_done = dk::tick(); w.completed_flag = true;
    vk::ctx().tr("#%ld receiver: %s %ld", w.t_done, dk::chan_name(chan), v);
    detsched::step();
  }
  void set_value(int v) && noexcept { fin(dk::VALUE, v); }
  void set_value() && noexcept { fin(dk::VALUE, 0); }
  void set_error(std::exception_ptr) && noexcept { fin(dk::ERROR, 0); }
  void set_done() && noexcept { fin(dk::DONE, 0); }
  friend inplace_stop_token tag_invoke(tag_t<get_stop_token>, const Recv& r) noexcept { return r.src->get_token(); }
};

struct Plan { int reentrant = 0; int subject = 0; int stop_mode = 0; int stop_delay = 0; int cb_delay = 0; bool late_second_call = false; int order[3] = {0, 1, 2}; int nstops = 1; int delays[3] = {0, 0, 0}; };

template <bool Safe>
void run_create(const Plan& p, World& W, bool check) {
  auto& cx = vk::ctx();
  inplace_stop_source src;
  auto body = [](auto event, auto& op) noexcept {
    World& w = *g_w;
    if constexpr (event.is_start) {
      w.start_events++; w.t_start_event = dk::tick();
      vk::ctx().tr("#%ld body: start event", w.t_start_event);
      if constexpr (Safe) w.cb = safe_callback<>(op); else w.cb = unsafe_callback<>(op);
      if (w.reentrant == 1) { w.t_stop_req = dk::tick(); vk::ctx().tr("#%ld body: the start event requests stop itself", w.t_stop_req); w.src->request_stop(); }
      w.published = true; detsched::step();
    } else if constexpr (event.is_callback) {
      w.callback_events++;
      vk::ctx().tr("#%ld body: callback event", dk::tick());
      if (w.reentrant == 2) { w.t_stop_req = dk::tick(); vk::ctx().tr("#%ld body: the callback event requests stop itself", w.t_stop_req); w.src->request_stop(); if (w.stop_events) return; }
      op.set_value(7);
    } else if constexpr (event.is_stop) {
      w.stop_events++; w.t_stop_event = dk::tick();
      if (w.completed_flag) w.stop_event_after_completion = true;
      if (w.start_events == 0) w.stop_event_before_start = true;
      vk::ctx().tr("#%ld body: stop event", w.t_stop_event);
      op.set_done();
    }
  };
  auto snd = create_basic_sender<int>(std::move(body));
  using Op = connect_result_t<decltype(snd), Recv>;
  dk::OpBox<Op> box;
  bool stop_planned = p.stop_mode != 0 || p.reentrant != 0;
  W.src = &src; W.reentrant = p.reentrant;
  if (p.stop_mode == 1) { W.t_stop_req = dk::tick(); src.request_stop(); }
  box.emplace(std::move(snd), Recv{&src});
  std::thread completer([&] {
    dk::wait_for([&] { return W.published || W.completed_flag; });
    for (int i = 0; i < p.cb_delay; ++i) detsched::yield_now();
    if (W.published) { cx.tr("#%ld completer: invokes the callback", dk::tick()); W.cb(); }
    W.first_call_done = true;
    if (p.late_second_call && Safe && W.published) {
      // a second, late invocation: must be a no-op whatever happened meanwhile
      for (int i = 0; i < 3; ++i) detsched::yield_now();
      dk::wait_for([&] { return W.completed_flag; });
      cx.tr("#%ld completer: invokes the callback again (late)", dk::tick());
      int before = W.callback_events; W.cb();
      if (check && W.callback_events != before) cx.fail(P, "late_callback_ran", "a safe callback invoked after the operation had completed ran the callback event again");
    }
  });
  std::thread stopper;
  if (p.stop_mode == 2) stopper = std::thread([&] {
    for (int i = 0; i < p.stop_delay; ++i) detsched::yield_now();
    W.t_stop_req = dk::tick(); cx.tr("#%ld stopper: request_stop", W.t_stop_req); src.request_stop();
  });
  unifex::start(*box.op);
  cx.tr("#%ld start() returned", dk::tick());
  dk::wait_for([&] { return W.completed_flag; });
  // KNOWN FINDING safe_callback_races_with_completion: a safe callback that obtained its reference just before the operation completed on
  // another thread still locks (and unlocks) the operation's mutex after the receiver may have destroyed the operation.  Excluded by
  // construction: the operation is kept alive until the completer's first invocation has returned (the late second invocation, made after
  // the storage is freed, still checks the expired-reference path).
  if (dk::known("safe_callback_races_with_completion") && Safe) { if (!W.first_call_done) vk::ctx().label("destroy-deferred(known finding safe_callback_races_with_completion)"); dk::wait_for([&] { return W.first_call_done; }); }
  box.reset();   // storage freed: anything that still touches the operation is a heap-use-after-free
  cx.tr("#%ld operation destroyed and freed", dk::tick());
  completer.join();
  if (stopper.joinable()) stopper.join();
  W.cb = nullptr;
  if (!check) return;
  if (W.signals != 1) cx.fail(P, "completion_count", "the receiver was completed %d times", W.signals);
  if (W.chan == dk::DONE && !stop_planned) cx.fail(P, "done_without_stop", "completed with done although stop was never requested");
  if (W.chan == dk::ERROR) cx.fail(P, "unexpected_error", "completed with error");
  if (!stop_planned && W.chan != dk::VALUE) cx.fail(P, "value_lost", "no stop was requested and the callback was invoked, but the receiver got %s", dk::chan_name(W.chan));
  if (W.chan == dk::VALUE && W.value != 7) cx.fail(P, "value_changed", "the callback event delivered 7, the receiver got %ld", W.value);
  if (W.stop_events > 1) cx.fail(P, "stop_hook_twice", "the stop event of the body ran %d times", W.stop_events);
  if (W.stop_event_after_completion) cx.fail(P, "stop_hook_after_completion", "the stop event of the body ran after the receiver had been completed");
  if (W.stop_event_before_start) cx.fail(P, "stop_hook_before_start", "the stop event of the body ran for an operation whose start event never ran");
  if (W.callback_events > 1) cx.fail(P, "callback_twice", "the callback event ran %d times", W.callback_events);
  if (p.stop_mode == 1 && W.start_events != 0) cx.fail(P, "started_although_stopped", "stop was requested before start(), yet the start event ran");
  if (p.stop_mode == 1 && W.chan != dk::DONE) cx.fail(P, "prestopped_not_done", "stop was requested before start(), the receiver got %s", dk::chan_name(W.chan));
}

void run_stop_on_request(const Plan& p, World& W, bool check) {
  auto& cx = vk::ctx();
  inplace_stop_source s[3];   // s[0]: the receiver's, s[1], s[2]: the external tokens
  auto snd = stop_on_request(s[1].get_token(), s[2].get_token());
  using Op = connect_result_t<decltype(snd), Recv>;
  dk::OpBox<Op> box;
  bool pre = p.stop_mode == 1;
  if (pre) { W.t_stop_req = dk::tick(); s[p.order[0]].request_stop(); }
  box.emplace(std::move(snd), Recv{&s[0]});
  std::vector<std::thread> ts;
  for (int k = pre ? 1 : 0; k < p.nstops; ++k) ts.emplace_back([&, k] {
    for (int i = 0; i < p.delays[k]; ++i) detsched::yield_now();
    if (W.t_stop_req < 0) W.t_stop_req = dk::tick();
    cx.tr("#%ld thread %d: request_stop on source %d", dk::tick(), k, p.order[k]);
    s[p.order[k]].request_stop();
  });
  unifex::start(*box.op);
  dk::wait_for([&] { return W.completed_flag; });
  box.reset();
  for (auto& t : ts) t.join();
  if (!check) return;
  if (W.signals != 1) cx.fail(P, "completion_count", "stop_on_request completed its receiver %d times", W.signals);
  if (W.chan != dk::DONE) cx.fail(P, "stop_on_request_result", "stop_on_request completed with %s", dk::chan_name(W.chan));
  if (W.t_done < W.t_stop_req) cx.fail(P, "done_without_stop", "stop_on_request completed before any stop was requested");
}

}  // namespace

extern "C" const char* vk_harness_name() { return "c19_create"; }
const char* vk_nontrivial_rule() {
  return "plan: subject in {create_basic_sender with a safe callback, create_basic_sender with an unsafe callback (no stop), stop_on_request(t1,t2)} x stop {none, before start, from a stopper thread after k yields} x "
         "completer delay x optional late second invocation of the safe callback; stop_on_request: 1-3 threads stop the three sources in generated order. schedule from the same bytes (detsched). "
         "non-trivial = a stop request and a callback invocation both happened after start (they raced), or a late safe callback was invoked after the storage was freed, or two or more sources were stopped";
}

void vk_run_case(vk::Choice& c) {
  auto& cx = vk::ctx();
  Plan p; p.subject = (int)c.upto(3);
  p.stop_mode = (int)c.upto(3); p.stop_delay = (int)c.upto(10); p.cb_delay = (int)c.upto(10); p.late_second_call = c.flag();
  // a stop request issued by the body's own handler (nested inside it, same thread); derived from the hash, no bytes consumed
  if (cx.argi("legacy", 0) == 0 && p.subject == 0 && c.h % 4 == 0) { p.reentrant = 1 + (int)((c.h / 4) % 2); p.stop_mode = 0; c.mix((uint64_t)p.reentrant + 5); }
  if (p.subject == 1) p.stop_mode = 0;                       // an unsafe callback may only be used while the operation is known to be alive
  if (p.subject == 2) { p.nstops = 1 + (int)c.upto(3); int perm = (int)c.upto(6); static const int PERM[6][3] = {{0,1,2},{0,2,1},{1,0,2},{1,2,0},{2,0,1},{2,1,0}}; for (int i = 0; i < 3; ++i) { p.order[i] = PERM[perm][i]; p.delays[i] = (int)c.upto(8); } if (p.stop_mode == 2) p.stop_mode = 0; }
  if (p.reentrant) cx.label(p.reentrant == 1 ? "stop-from-inside-start-event" : "stop-from-inside-callback-event");
  cx.desc = vk::sfmt("%ssubject=%s stop=%s(+%d) cb_delay=%d late_second_call=%d nstops=%d order=%d%d%d", p.reentrant == 1 ? "[start event requests stop] " : p.reentrant == 2 ? "[callback event requests stop] " : "", p.subject == 0 ? "create_basic_sender/safe" : p.subject == 1 ? "create_basic_sender/unsafe" : "stop_on_request",
                     p.stop_mode == 0 ? "none" : p.stop_mode == 1 ? "before-start" : "stopper", p.stop_delay, p.cb_delay, (int)p.late_second_call, p.nstops, p.order[0], p.order[1], p.order[2]);
  bool nt = false;
  detsched::Options o; o.max_steps = 20000;
  auto res = detsched::run(c, o, [&] {
    World W; g_w = &W; bool check = !detsched::in_dry_run();
    if (p.subject == 0) run_create<true>(p, W, check); else if (p.subject == 1) run_create<false>(p, W, check); else run_stop_on_request(p, W, check);
    if (check) nt = (p.subject == 0 && p.stop_mode == 2 && W.start_events > 0) || (p.subject == 0 && p.late_second_call) || (p.subject == 2 && p.nstops >= 2);
    dk::free_graveyard();
    g_w = nullptr;
  });
  cx.desc += " | " + res.schedule;
  cx.nontrivial = nt && !res.inconclusive;
  if (res.inconclusive) cx.label("inconclusive(step budget)");
}
