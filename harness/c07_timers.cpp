// C07 (a) — timers under virtual time (detsched): timed_single_thread_context
// and thread_unsafe_event_loop.  Never early, due-time order (ties in submission
// order), a stopped timer completes with done without waiting for its due time,
// exactly once, nothing retained after completion.
#include "kit/case.hpp"
#include "kit/dk.hpp"

#include <unifex/just.hpp>
#include <unifex/scheduler_concepts.hpp>
#include <unifex/thread_unsafe_event_loop.hpp>
#include <unifex/timed_single_thread_context.hpp>

#include <chrono>
#include <thread>

using namespace unifex;
using vclock = std::chrono::steady_clock;   // virtual under the shim

namespace {
const char* P = "C07";

struct Timer {
  int producer = 0; int kind = 0;          // 0 schedule_after, 1 schedule_at, 2 schedule (now)
  long long offset_us = 0;                 // due time relative to the case's time zero (may be negative = in the past)
  int stop_mode = 0;                       // 0 none, 1 before start, 2 stopper after delay
  long long stop_delay_us = 0;
  // observations (virtual nanoseconds since the case's time zero)
  long long v_start_begin = -1, v_start_end = -1, v_due = 0, v_due_hi = 0, v_done = -1, v_stop = -1;   // [v_due, v_due_hi]: schedule_after computes its due time from now() somewhere inside start()
  long t_start_end = -1, t_done = -1;
  int signals = 0; int chan = dk::NONE; int thread = -1;
  std::unique_ptr<inplace_stop_source> src;
};
struct Erased { void* p = nullptr; void (*del)(void*) = nullptr; void reset() { if (p) { auto d = del; void* q = p; p = nullptr; d(q); } } };
struct World { std::vector<Timer> timers; vclock::time_point zero; };
World* g_w;

long long vnow() { return std::chrono::duration_cast<std::chrono::nanoseconds>(vclock::time_point(std::chrono::nanoseconds(detsched::clock_peek_ns())) - g_w->zero).count(); }

template <class OpHolder>
struct Rcv {
  int id; OpHolder* holder;
  void fin(int chan) noexcept {
    Timer& t = g_w->timers[(size_t)id];
    t.signals++;
    if (t.signals > 1) { vk::ctx().fail("C01", "double_completion", "timer #%d completed %d times", id, t.signals); return; }
    t.chan = chan; t.v_done = vnow(); t.t_done = dk::tick(); t.thread = detsched::current_thread();
    vk::ctx().tr("#%ld timer #%d completes with %s at virtual %+lld ns (due %+lld)", t.t_done, id, dk::chan_name(chan), t.v_done, t.v_due);
    if (holder) holder->reset();   // the receiver frees the operation at once: later touches by the context are use-after-free
    detsched::step();
  }
  void set_value() && noexcept { fin(dk::VALUE); }
  template <class E> void set_error(E&&) && noexcept { fin(dk::ERROR); }
  void set_done() && noexcept { fin(dk::DONE); }
  friend inplace_stop_token tag_invoke(tag_t<get_stop_token>, const Rcv& r) noexcept { auto& t = g_w->timers[(size_t)r.id]; return t.src ? t.src->get_token() : inplace_stop_token{}; }
};

struct Script { int ctx = 0; int P = 1; std::vector<std::vector<int>> prod; std::vector<Timer> proto; bool free_in_completion = true; };

Script decode(vk::Choice& c) {
  Script s;
  s.ctx = c.chance(1, 3) ? 1 : 0;          // 0 timed_single_thread_context, 1 thread_unsafe_event_loop
  s.P = s.ctx == 1 ? 1 : 1 + (int)c.upto(2);
  s.free_in_completion = c.chance(3, 4);
  s.prod.resize((size_t)s.P);
  static const long long offs[] = {-500, 0, 0, 100, 100, 250, 250, 1000, 1000, 5000, 3600000000LL};
  for (int p = 0; p < s.P; ++p) {
    int n = 1 + (int)c.upto(5);
    for (int k = 0; k < n; ++k) {
      Timer t; t.producer = p; t.kind = (int)c.upto(3);
      t.offset_us = t.kind == 2 ? 0 : offs[c.upto(sizeof offs / sizeof offs[0])];
      unsigned m = c.upto(10); t.stop_mode = m < 6 ? 0 : m < 7 ? 1 : 2;
      if (t.offset_us > 100000000LL && t.stop_mode == 0) t.stop_mode = 2;   // the far-future timer is always cancelled
      t.stop_delay_us = (long long)c.upto(4) * 100;
      s.prod[(size_t)p].push_back((int)s.proto.size()); s.proto.push_back(std::move(t));
    }
  }
  return s;
}

std::string describe(const Script& s) {
  std::string d = vk::sfmt("%s, %d producer(s), free-in-completion=%d:", s.ctx ? "thread_unsafe_event_loop" : "timed_single_thread_context", s.P, (int)s.free_in_completion);
  for (int p = 0; p < s.P; ++p) { d += vk::sfmt(" P%d[", p); for (int i : s.prod[(size_t)p]) { auto& t = s.proto[(size_t)i]; d += vk::sfmt("#%d:%s%+lldus%s ", i, t.kind == 0 ? "after" : t.kind == 1 ? "at" : "now", t.offset_us, t.stop_mode == 1 ? "(pre-stopped)" : t.stop_mode == 2 ? vk::sfmt("(stop+%lldus)", t.stop_delay_us).c_str() : ""); } d += "]"; }
  return d;
}

void check(World& W, bool fifo_ties) {
  auto& cx = vk::ctx();
  for (size_t i = 0; i < W.timers.size(); ++i) {
    Timer& t = W.timers[i];
    if (t.v_start_begin < 0) continue;
    if (t.signals != 1) { cx.fail(P, "timer_completion_count", "timer #%zu completed %d times", i, t.signals); continue; }
    if (t.chan == dk::ERROR) cx.fail(P, "unexpected_error", "timer #%zu completed with an error", i);
    if (t.chan == dk::VALUE && t.v_done < t.v_due) cx.fail(P, "fired_early", "timer #%zu completed with value at virtual time %+lld ns, before its due time %+lld ns", i, t.v_done, t.v_due);
    if (t.chan == dk::DONE && t.v_stop < 0) cx.fail(P, "done_without_stop", "timer #%zu completed with done although stop was never requested", i);
    if (t.chan == dk::VALUE && t.stop_mode == 1) cx.fail(P, "value_despite_stop", "timer #%zu completed with value although stop had been requested before start()", i);
    // promptness: a stop request well before the due time must not wait for the due time
    if (t.v_stop >= 0 && t.v_stop + 200000 < t.v_due && t.v_done >= t.v_due_hi && t.v_due_hi > t.v_stop + 200000) cx.fail(P, "cancel_not_prompt", "timer #%zu: stop requested at %+lld ns, due at %+lld ns, but it completed (%s) only at %+lld ns", i, t.v_stop, t.v_due, dk::chan_name(t.chan), t.v_done);
  }
  // due-time order among timers that were pending simultaneously and not stopped
  for (size_t a = 0; a < W.timers.size(); ++a) for (size_t b = 0; b < W.timers.size(); ++b) {
    Timer &A = W.timers[a], &B = W.timers[b];
    if (a == b || A.signals != 1 || B.signals != 1 || A.v_stop >= 0 || B.v_stop >= 0 || A.chan != dk::VALUE || B.chan != dk::VALUE) continue;
    bool both_pending = A.t_start_end >= 0 && B.t_start_end >= 0 && A.t_start_end < B.t_done && B.t_start_end < A.t_done;
    if (!both_pending) continue;
    if (A.v_due_hi < B.v_due && A.t_done > B.t_done) cx.fail(P, "due_time_order", "timers #%zu (due %+lld) and #%zu (due %+lld) were pending together but completed in the opposite order", a, A.v_due, b, B.v_due);
    if (fifo_ties && A.kind == 1 && B.kind == 1 && A.v_due == B.v_due && A.t_start_end < B.t_start_end && A.producer == B.producer && A.t_done > B.t_done) cx.fail(P, "tie_order", "timers #%zu and #%zu have the same due time (%+lld), #%zu was submitted first but completed later", a, b, A.v_due, a);
  }
}

template <class Sched, class Make>
void start_timer(World& W, int id, Sched sched, bool free_in_completion, std::vector<std::function<void()>>& cleanup, Make /*unused*/) {
  Timer& t = W.timers[(size_t)id];
  auto launch = [&](auto snd) {
    auto* holder = new Erased();
    using R = Rcv<Erased>;
    using Op = connect_result_t<decltype(std::move(snd)), R>;
    Op* op = new Op(connect(std::move(snd), R{id, free_in_completion ? holder : nullptr}));
    holder->p = op; holder->del = [](void* q) { delete static_cast<Op*>(q); };
    cleanup.push_back([holder] { holder->reset(); delete holder; });
    t.v_start_begin = vnow();
    start(*op);
    t.v_start_end = vnow(); t.t_start_end = dk::tick();
  };
  if (t.kind == 0) { t.v_due = vnow() + t.offset_us * 1000; launch(schedule_after(sched, std::chrono::microseconds(t.offset_us))); t.v_due_hi = t.v_start_end + t.offset_us * 1000; }
  else if (t.kind == 1) { auto due = W.zero + std::chrono::microseconds(t.offset_us); t.v_due = t.v_due_hi = t.offset_us * 1000; launch(schedule_at(sched, due)); }
  else { t.v_due = vnow(); launch(schedule(sched)); t.v_due_hi = t.v_start_end; }
}

void run_script(const Script& sc, bool check_it, bool& nontrivial) {
  auto& cx = vk::ctx();
  World W; g_w = &W;
  dk::clock_ref() = 0;
  W.zero = vclock::time_point(std::chrono::nanoseconds(detsched::clock_peek_ns()));
  for (auto& p : sc.proto) { Timer t; t.producer = p.producer; t.kind = p.kind; t.offset_us = p.offset_us; t.stop_mode = p.stop_mode; t.stop_delay_us = p.stop_delay_us; if (t.stop_mode) t.src = std::make_unique<inplace_stop_source>(); W.timers.push_back(std::move(t)); }
  for (auto& t : W.timers) if (t.stop_mode == 1) { t.v_stop = 0; t.src->request_stop(); }
  std::vector<std::function<void()>> cleanup;
  if (sc.ctx == 0) {
    {
      timed_single_thread_context ctx;
      auto sched = ctx.get_scheduler();
      std::vector<std::thread> th;
      for (int p = 0; p < sc.P; ++p) th.emplace_back([&, p] {
        for (int id : sc.prod[(size_t)p]) { detsched::step(); start_timer(W, id, sched, sc.free_in_completion, cleanup, 0); }
      });
      std::thread stopper([&] {
        // stop requests in order of their delay (virtual time): sleep on the virtual clock
        for (auto& t : W.timers) if (t.stop_mode == 2) {
          dk::wait_for([&] { return t.v_start_end >= 0; });
          std::this_thread::sleep_until(vclock::time_point(std::chrono::nanoseconds(detsched::clock_peek_ns())) + std::chrono::microseconds(t.stop_delay_us));
          t.v_stop = vnow();
          cx.tr("stopper: request_stop on timer #%d at virtual %+lld ns", (int)(&t - &W.timers[0]), t.v_stop);
          t.src->request_stop();
        }
      });
      for (auto& t : th) t.join();
      stopper.join();
      // wait (in virtual time) until every timer has completed; a lost wake-up shows as a livelock/deadlock verdict
      dk::wait_for([&] { for (auto& t : W.timers) if (t.v_start_begin >= 0 && t.signals == 0) return false; return true; });
    }
  } else {
    thread_unsafe_event_loop loop;
    auto sched = loop.get_scheduler();
    for (int id : sc.prod[0]) start_timer(W, id, sched, sc.free_in_completion, cleanup, 0);
    // stop requests are issued from inside the loop by helper timers (single-threaded context)
    for (auto& t : W.timers) if (t.stop_mode == 2) { t.v_stop = vnow(); t.src->request_stop(); }
    loop.sync_wait(just());   // runs the loop until it is empty
  }
  for (auto& f : cleanup) f();
  if (check_it) {
    check(W, true);
    int pending_pairs = 0;
    for (size_t a = 0; a < W.timers.size(); ++a) for (size_t b = a + 1; b < W.timers.size(); ++b) if (W.timers[a].signals && W.timers[b].signals && W.timers[a].t_start_end < W.timers[b].t_done && W.timers[b].t_start_end < W.timers[a].t_done) pending_pairs++;
    bool any_stop = false; for (auto& t : W.timers) if (t.v_stop >= 0) any_stop = true;
    nontrivial = pending_pairs > 0 || any_stop;
  }
  g_w = nullptr;
}

}  // namespace

extern "C" const char* vk_harness_name() { return "c07_timers"; }
const char* vk_nontrivial_rule() {
  return "scripts: timed_single_thread_context (1-2 producer threads) or thread_unsafe_event_loop, 1-5 timers each of schedule_after / schedule_at / schedule with due offsets {-500us, 0, 100us, 250us, 1ms, 5ms, +1h} (duplicates give ties), "
         "per-timer stop {none, before start, by a stopper at +0..300us virtual}, receiver frees the operation inside its completion or not; virtual clock and schedule from the same bytes (detsched). "
         "non-trivial = >=2 timers pending simultaneously or a stop request; distinct = hash of decoded script + schedule";
}

void vk_run_case(vk::Choice& c) {
  auto& cx = vk::ctx();
  Script sc = decode(c);
  cx.desc = describe(sc);
  bool nt = false;
  detsched::Options o; o.max_steps = 60000;
  auto res = detsched::run(c, o, [&] { bool dry = detsched::in_dry_run(); bool ig = false; run_script(sc, !dry, dry ? ig : nt); });
  cx.desc += " | " + res.schedule;
  cx.nontrivial = nt && !res.inconclusive;
  cx.label(sc.ctx ? "thread_unsafe_event_loop" : "timed_single_thread_context");
  if (res.inconclusive) cx.label("inconclusive(step budget)");
}
