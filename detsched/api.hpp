// detsched — deterministic scheduler over real threads.  Exactly one thread of
// a case holds the run token; every visible operation (atomic access, mutex,
// condition variable, thread create/join, yield, clock read) calls point()
// first, and the scheduler — driven only by the case's bytes — decides who
// runs next.  Blocking is modelled, never real.  Time is virtual.
//
// This header is included both by the shim (library + harness side, with the
// std names renamed) and by runtime.cpp (compiled without the renames), so it
// must not mention std::atomic/mutex/thread/steady_clock by name.
#pragma once
#include <cstdint>
#include <cstddef>
#include <functional>
#include <string>
#include <thread>

struct epoll_event;

namespace vk { struct Choice; }

namespace detsched {

enum class Op : uint8_t { Load, Store, Rmw, Cas, Fence, MutexLock, MutexUnlock, CvWait, CvNotify, ThreadCreate, ThreadJoin, Yield, ClockNow, Sleep, Epoll, User };

struct ThreadRec;
struct MutexState { int owner = -1; int depth = 0; };
struct CvState { int dummy = 0; };

// ---- called by the shim ---------------------------------------------------
bool active() noexcept;                       // is the calling thread under scheduler control?
void point(Op op, const void* addr) noexcept; // scheduling point before a visible operation
void wrote(const void* addr) noexcept;        // a write happened (releases parked spinners)
void cas_failed(const void* addr) noexcept;
bool spurious_cas_failure() noexcept;         // generated: make this weak CAS fail spuriously
template <class MO> constexpr MO fail_order(MO o) noexcept {
  // mirrors the standard's mapping for the single-order CAS overloads
  return o == MO(4) /*acq_rel*/ ? MO(2) /*acquire*/ : o == MO(3) /*release*/ ? MO(0) /*relaxed*/ : o;
}
void mutex_lock(MutexState*) noexcept;
bool mutex_try_lock(MutexState*) noexcept;
void mutex_unlock(MutexState*) noexcept;
void rmutex_lock(MutexState*) noexcept;
bool rmutex_try_lock(MutexState*) noexcept;
void rmutex_unlock(MutexState*) noexcept;
// returns true when the wait ended by timeout
bool cv_wait(CvState*, MutexState*, bool timed, long long deadline_ns) noexcept;
void cv_notify(CvState*, bool all) noexcept;
ThreadRec* thread_create(std::function<void()> fn, void* real_thread_out);
void thread_join(ThreadRec*) noexcept;
void thread_detach(ThreadRec*) noexcept;
std::thread::id thread_id(ThreadRec*) noexcept;
void yield_now() noexcept;
long long clock_now_ns() noexcept;            // scheduling point + virtual time
long long clock_peek_ns() noexcept;           // virtual time, no scheduling point
void sleep_until_ns(long long deadline_ns) noexcept;
int epoll_wait_hook(int epfd, epoll_event* ev, int maxev, int timeout) noexcept;
// io_uring_enter(fd, to_submit, min_complete, flags, sig, sigsz): submit, then wait for completions without sleeping in the kernel
long uring_enter_hook(long fd, long to_submit, long min_complete, long flags, const void* sig, long sigsz) noexcept;
template <class A, class B, class C, class D, class E, class F>
inline long uring_enter_hook(A fd, B to_submit, C min_complete, D flags, E sig, F sigsz) noexcept { return uring_enter_hook((long)fd, (long)to_submit, (long)min_complete, (long)flags, (const void*)sig, (long)sigsz); }
// generated I/O faults: the n-th readv (which=0) / writev (which=1) call of the case fails with `err` (>0) or transfers
// half of what was asked (err<0).  Returns 0 when the call should go through unchanged.
long io_fault(int which) noexcept;
void set_io_fault(int which, long nth, long err) noexcept;   // nth < 0 disables
long io_calls(int which) noexcept;

// ---- called by harnesses ----------------------------------------------------
struct Options {
  int max_steps = 20000;       // per run; exceeding it makes the case inconclusive (never a violation)
  bool dry_run = true;         // first run the scenario on the default schedule to measure its length
  bool allow_spurious = true;  // condition-variable spurious wake-ups and weak-CAS failures may be generated
};

struct Result {
  bool inconclusive = false;   // step budget exhausted
  int steps = 0;               // scheduling points of the (generated-schedule) run
  int threads = 0;             // threads that existed
  int preemptions = 0;         // switches away from a thread that could have continued
  int blocks = 0;              // times a thread blocked (mutex/cv/join/sleep/spin)
  int strategy = 0;            // 0 preemption list, 1 random walk, 2 PCT
  int spurious = 0;
  std::string schedule;        // compact description for traces
};

// Runs `scenario` under schedule control.  The calling thread becomes thread 0
// of the case; `scenario` must create (and join) every other thread through
// the shimmed std::thread or detsched::Thread.  Schedule decisions are decoded
// lazily from `c`.  With opts.dry_run the scenario is executed twice, so it
// must build all of its state itself.
Result run(vk::Choice& c, const Options& opts, const std::function<void()>& scenario);

// explicit scheduling point in harness code ("another thread may run here")
inline void step() noexcept { point(Op::User, nullptr); }
int current_thread() noexcept;                // 0-based index within the case, -1 outside
bool in_dry_run() noexcept;
void advance_clock_ns(long long d) noexcept;  // harness-driven clock advance
long long steps_so_far() noexcept;
int thread_count() noexcept;                  // threads created so far in this run (including thread 0)
int live_threads() noexcept;                  // threads of this run that have not finished yet (including the caller)

}  // namespace detsched
