// detsched runtime (compiled WITHOUT the shim renames).  See api.hpp.
#include <sys/syscall.h>
#include <unistd.h>
#include "detsched/api.hpp"
#include "kit/case.hpp"

#include <semaphore.h>
#include <sys/epoll.h>
#include <unistd.h>

#include <algorithm>
#include <cstdio>
#include <cstring>
#include <thread>
#include <vector>

namespace detsched {

struct ThreadRec {
  int id = 0;
  sem_t sem;
  enum St { Runnable, BlockMutex, BlockCv, BlockJoin, Sleeping, SpinParked, Finished } st = Runnable;
  const void* obj = nullptr;
  bool timed = false;
  long long deadline = 0;
  bool timed_out = false;
  const void* spin_addr = nullptr;
  int spin = 0;
  bool spin_clock = false;
  std::function<void()> fn;
  long prio = 0;
  bool has_worker = false;     // a persistent OS thread serves this record (thread pool across cases)
  std::thread::id tid;
  ThreadRec() { sem_init(&sem, 0, 0); }
};

namespace {

constexpr int kSpinLimit = 40;
constexpr long long kTick = 50;  // virtual ns per scheduling point

struct Sched {
  bool on = false;
  bool dry = false;
  std::vector<ThreadRec*> th;
  ThreadRec* cur = nullptr;
  long long clock = 0;
  long steps = 0;
  Options opt;
  vk::Choice* ch = nullptr;
  bool exhausted = false;
  Result res;
  // strategy
  int strat = 0;
  std::vector<std::pair<long, unsigned>> preempt;  // (step, pick)
  size_t next_pre = 0;
  uint64_t rng = 88172645463325252ull;
  std::vector<long> change_points;                 // PCT
  size_t next_cp = 0;
  long low_prio = -1;
  long writes = 0;
  long writes_at_last_release = -1;
  int idle_rounds = 0;
  std::string sched_desc;
};
Sched& g = *new Sched();  // never destroyed: LeakSanitizer runs after static destructors

thread_local ThreadRec* tl_self = nullptr;
std::vector<ThreadRec*>& g_pool = *new std::vector<ThreadRec*>();  // never freed: a finishing thread may still be inside sem_post

uint64_t rnd() { g.rng ^= g.rng << 13; g.rng ^= g.rng >> 7; g.rng ^= g.rng << 17; return g.rng; }

const char* st_name(ThreadRec::St s) {
  switch (s) {
    case ThreadRec::Runnable: return "runnable"; case ThreadRec::BlockMutex: return "blocked-on-mutex";
    case ThreadRec::BlockCv: return "waiting-on-condvar"; case ThreadRec::BlockJoin: return "joining";
    case ThreadRec::Sleeping: return "sleeping"; case ThreadRec::SpinParked: return "spinning"; default: return "finished";
  }
}

[[noreturn]] void report_stuck(const char* sig, const char* what) {
  std::string m = what;
  m += " —";
  for (auto* t : g.th) { char b[96]; snprintf(b, sizeof b, " T%d:%s", t->id, st_name(t->st)); m += b; }
  m += " | schedule: " + g.sched_desc;
  vk::ctx().fail("*", sig, "%s (steps=%ld)", m.c_str(), g.steps);
  fprintf(stderr, "DETSCHED-%s %s\n", strcmp(sig, "deadlock") == 0 ? "DEADLOCK" : "LIVELOCK", m.c_str());
  printf("DETSCHED-%s\n", strcmp(sig, "deadlock") == 0 ? "DEADLOCK" : "LIVELOCK");
  g.on = false;
  vk::fatal_exit();
}

void wake_expired() {
  for (auto* t : g.th)
    if ((t->st == ThreadRec::Sleeping || t->st == ThreadRec::BlockCv) && t->timed && t->deadline <= g.clock) {
      t->st = ThreadRec::Runnable; t->timed_out = true; t->timed = false;
    }
}

// Nothing is runnable: let virtual time pass, then release parked spinners.
bool wake_something() {
  long long best = -1;
  for (auto* t : g.th)
    if ((t->st == ThreadRec::Sleeping || t->st == ThreadRec::BlockCv) && t->timed)
      if (best < 0 || t->deadline < best) best = t->deadline;
  bool any_spin = false, spin_clock = false;
  for (auto* t : g.th) if (t->st == ThreadRec::SpinParked) { any_spin = true; spin_clock |= t->spin_clock; }
  if (any_spin) {
    if (g.writes == g.writes_at_last_release) {
      if (spin_clock || best >= 0) {
        // spinning on the clock (or someone sleeps): let time pass
        g.clock = best >= 0 ? std::max(g.clock + 1000, best) : g.clock + 1000000;
        wake_expired();
        g.idle_rounds = 0;
      } else if (++g.idle_rounds > 6) {
        report_stuck("livelock", "threads spin without any thread making progress");
      }
    } else {
      g.idle_rounds = 0;
    }
    g.writes_at_last_release = g.writes;
    for (auto* t : g.th) if (t->st == ThreadRec::SpinParked) { t->st = ThreadRec::Runnable; t->spin = 0; }
    return true;
  }
  if (best >= 0) {
    if (best > g.clock) g.clock = best;
    wake_expired();
    return true;
  }
  return false;
}

void runnable_list(std::vector<ThreadRec*>& r) {
  r.clear();
  for (auto* t : g.th) if (t->st == ThreadRec::Runnable) r.push_back(t);
}

// Chooses the next thread to run.  can_continue: `me` is runnable and could go on.
ThreadRec* decide(ThreadRec* me, bool can_continue, bool yielding) {
  static thread_local std::vector<ThreadRec*> r;
  runnable_list(r);
  if (r.empty()) return nullptr;
  std::vector<ThreadRec*> others;
  for (auto* t : r) if (t != me) others.push_back(t);
  auto after_me = [&]() -> ThreadRec* {  // round robin
    for (auto* t : others) if (t->id > me->id) return t;
    return others.front();
  };
  if (g.exhausted) {  // fair mode, only to let the case terminate
    if (!others.empty()) return after_me();
    return me;
  }
  if (can_continue && others.empty()) return me;
  if (g.dry || g.strat == 0) {
    if (can_continue && !yielding) {
      if (!g.dry && g.next_pre < g.preempt.size() && g.steps >= g.preempt[g.next_pre].first) {
        unsigned pick = g.preempt[g.next_pre].second;
        g.next_pre++;
        g.res.preemptions++;
        return others[pick % others.size()];
      }
      return me;
    }
    if (yielding) return after_me();
    if (g.dry || !g.ch) return r.front();
    return r[g.ch->upto((uint32_t)r.size())];
  }
  if (g.strat == 1) {  // random walk
    if (can_continue && !yielding) {
      if (rnd() % 3 != 0) return me;
      g.res.preemptions++;
      return others[rnd() % others.size()];
    }
    if (yielding) return others[rnd() % others.size()];
    return r[rnd() % r.size()];
  }
  // PCT: highest priority runnable thread runs; change points demote the running thread
  if (can_continue && g.next_cp < g.change_points.size() && g.steps >= g.change_points[g.next_cp]) {
    g.next_cp++;
    me->prio = g.low_prio--;
  }
  ThreadRec* best = nullptr;
  for (auto* t : r) {
    if (yielding && t == me) continue;
    if (!best || t->prio > best->prio) best = t;
  }
  if (!best) best = me;
  if (can_continue && best != me) g.res.preemptions++;
  return best;
}

void switch_to(ThreadRec* next, ThreadRec* me) {
  if (next == me) { g.cur = me; return; }
  g.cur = next;
  sem_post(&next->sem);
  sem_wait(&me->sem);
}

// `me` has just been put into a blocked state.
void block(ThreadRec* me) {
  g.res.blocks++;
  for (;;) {
    ThreadRec* next = decide(me, false, false);
    if (next) { switch_to(next, me); return; }
    if (!wake_something()) report_stuck("deadlock", "no thread can run although work is outstanding (lost wake-up / deadlock)");
    if (me->st == ThreadRec::Runnable) {
      ThreadRec* n2 = decide(me, true, false);
      switch_to(n2 ? n2 : me, me);
      return;
    }
  }
}

void point_impl(Op op, const void* addr, bool yielding) {
  ThreadRec* me = tl_self;
  static const bool dbg = getenv("DETSCHED_TRACE") != nullptr;   // debugging aid: one line per scheduling point of the generated-schedule run
  if (dbg && !g.dry) fprintf(stderr, "  [T%d %s %p]\n", me ? me->id : -1, op == Op::Load ? "load" : op == Op::Store ? "store" : op == Op::Rmw ? "rmw" : op == Op::Cas ? "cas" : op == Op::Fence ? "fence" : op == Op::Yield ? "yield" : "other", addr);
  g.steps++;
  g.clock += kTick;
  if ((g.steps & 15) == 0) wake_expired();
  if (!g.exhausted && g.steps > g.opt.max_steps) {
    g.exhausted = true;
    g.res.inconclusive = true;
  }
  if (g.steps > 40L * g.opt.max_steps) report_stuck("livelock", "case does not terminate under fair round-robin scheduling");
  bool spinny = (op == Op::Load || op == Op::Cas || op == Op::Yield || op == Op::ClockNow || op == Op::Epoll);
  if (spinny) {
    if (op == Op::Yield || op == Op::ClockNow || op == Op::Epoll || addr == me->spin_addr) me->spin++;
    else { me->spin_addr = addr; me->spin = 1; me->spin_clock = false; }
    if (op == Op::ClockNow) me->spin_clock = true;
    if (me->spin >= kSpinLimit) {
      bool others = false;
      for (auto* t : g.th) if (t != me && t->st == ThreadRec::Runnable) others = true;
      me->st = ThreadRec::SpinParked;
      me->spin = 0;
      (void)others;
      block(me);
      return;
    }
  } else {
    me->spin = 0; me->spin_clock = false; me->spin_addr = nullptr;
  }
  ThreadRec* next = decide(me, true, yielding);
  if (next && next != me) switch_to(next, me);
}

void lock_loop(ThreadRec* me, MutexState* m) {
  while (m->owner != -1) {
    me->st = ThreadRec::BlockMutex; me->obj = m; me->timed = false;
    block(me);
  }
  m->owner = me->id;
}

void unlock_impl(MutexState* m) {
  m->owner = -1;
  for (auto* t : g.th) if (t->st == ThreadRec::BlockMutex && t->obj == m) t->st = ThreadRec::Runnable;
}

void finish(ThreadRec* me) {
  me->st = ThreadRec::Finished;
  g.writes++;
  for (auto* t : g.th) if (t->st == ThreadRec::BlockJoin && (t->obj == me || t->obj == nullptr)) t->st = ThreadRec::Runnable;
  for (;;) {
    ThreadRec* next = decide(me, false, false);
    if (next) { g.cur = next; tl_self = nullptr; sem_post(&next->sem); return; }
    if (!wake_something()) report_stuck("deadlock", "a thread finished and no other thread can run although work is outstanding");
  }
}

ThreadRec* alloc_rec() {
  ThreadRec* r;
  if (!g_pool.empty()) { r = g_pool.back(); g_pool.pop_back(); }
  else r = new ThreadRec();
  r->st = ThreadRec::Runnable; r->obj = nullptr; r->timed = false; r->timed_out = false;
  r->spin = 0; r->spin_addr = nullptr; r->spin_clock = false; r->fn = nullptr; r->prio = 0;
  while (sem_trywait(&r->sem) == 0) {}
  return r;
}

void setup_strategy(long est_len) {
  g.preempt.clear(); g.next_pre = 0; g.change_points.clear(); g.next_cp = 0; g.low_prio = -1;
  vk::Choice& c = *g.ch;
  unsigned s = c.upto(4);
  long len = std::max<long>(est_len, 8);
  char buf[160];
  if (s <= 1) {
    g.strat = 0;
    unsigned npre = c.upto(4);
    std::string d = "preempt@[";
    for (unsigned i = 0; i < npre; ++i) {
      long pos = (long)(c.upto(65536) % (uint32_t)(len + 1));
      unsigned pick = c.upto(8);
      g.preempt.emplace_back(pos, pick);
    }
    std::sort(g.preempt.begin(), g.preempt.end());
    for (auto& p : g.preempt) { snprintf(buf, sizeof buf, "%ld>%u ", p.first, p.second); d += buf; }
    g.sched_desc = d + "]";
  } else if (s == 2) {
    g.strat = 1;
    g.rng = 0x9e3779b97f4a7c15ull ^ ((uint64_t)c.upto(65536) * 0x100000001b3ull + 1);
    snprintf(buf, sizeof buf, "random-walk seed=%llx", (unsigned long long)g.rng);
    g.sched_desc = buf;
  } else {
    g.strat = 2;
    g.rng = 0xd1b54a32d192ed03ull ^ ((uint64_t)c.upto(65536) * 0x100000001b3ull + 1);
    unsigned d = c.upto(4);
    for (unsigned i = 0; i < d; ++i) g.change_points.push_back((long)(rnd() % (uint64_t)(len + 1)));
    std::sort(g.change_points.begin(), g.change_points.end());
    snprintf(buf, sizeof buf, "pct seed=%llx changes=%u", (unsigned long long)g.rng, d);
    g.sched_desc = buf;
  }
  g.res.strategy = g.strat;
}

void run_once(const std::function<void()>& scenario) {
  for (auto* t : g.th) if (t->has_worker) g_pool.push_back(t);
  g.th.clear();
  static ThreadRec* main_rec = new ThreadRec();
  ThreadRec* me = main_rec;
  me->st = ThreadRec::Runnable; me->obj = nullptr; me->timed = false; me->timed_out = false;
  me->spin = 0; me->spin_addr = nullptr; me->spin_clock = false;
  while (sem_trywait(&me->sem) == 0) {}
  me->id = 0;
  me->prio = 1000000;  // PCT: the main thread starts highest
  g.th.push_back(me);
  g.cur = me; g.clock = 1000000; g.steps = 0; g.exhausted = false;
  g.writes = 0; g.writes_at_last_release = -1; g.idle_rounds = 0;
  tl_self = me;
  g.on = true;
  scenario();
  // implicit join of everything the scenario left running
  for (;;) {
    ThreadRec* pending = nullptr;
    for (auto* t : g.th) if (t != me && t->st != ThreadRec::Finished) { pending = t; break; }
    if (!pending) break;
    g.steps++;
    me->st = ThreadRec::BlockJoin; me->obj = nullptr; me->timed = false;
    block(me);
  }
  g.on = false;
  tl_self = nullptr;
}

}  // namespace

bool active() noexcept { return g.on && tl_self != nullptr; }
bool in_dry_run() noexcept { return g.dry; }
int current_thread() noexcept { return tl_self ? tl_self->id : -1; }
long long steps_so_far() noexcept { return g.steps; }
int thread_count() noexcept { return (int)g.th.size(); }
int live_threads() noexcept { int n = 0; for (auto* t : g.th) if (t->st != ThreadRec::Finished) n++; return n; }

void point(Op op, const void* addr) noexcept {
  if (!active()) return;
  point_impl(op, addr, false);
}
void wrote(const void*) noexcept {
  if (!active()) return;
  g.writes++;
  tl_self->spin = 0;
  for (auto* t : g.th) if (t->st == ThreadRec::SpinParked) { t->st = ThreadRec::Runnable; t->spin = 0; }
}
void cas_failed(const void*) noexcept {}
bool spurious_cas_failure() noexcept {
  if (!active() || g.dry || !g.opt.allow_spurious || g.exhausted) return false;
  if (g.strat == 0) return false;  // the preemption-list strategy stays minimal (shrinks well)
  if (rnd() % 16 == 0) { g.res.spurious++; return true; }
  return false;
}

void mutex_lock(MutexState* m) noexcept { point(Op::MutexLock, m); lock_loop(tl_self, m); }
bool mutex_try_lock(MutexState* m) noexcept {
  point(Op::MutexLock, m);
  if (m->owner != -1) return false;
  m->owner = tl_self->id;
  return true;
}
void mutex_unlock(MutexState* m) noexcept { point(Op::MutexUnlock, m); unlock_impl(m); wrote(m); }
void rmutex_lock(MutexState* m) noexcept {
  point(Op::MutexLock, m);
  if (m->owner == tl_self->id) { m->depth++; return; }
  lock_loop(tl_self, m);
  m->depth = 1;
}
bool rmutex_try_lock(MutexState* m) noexcept {
  point(Op::MutexLock, m);
  if (m->owner == tl_self->id) { m->depth++; return true; }
  if (m->owner != -1) return false;
  m->owner = tl_self->id; m->depth = 1;
  return true;
}
void rmutex_unlock(MutexState* m) noexcept {
  point(Op::MutexUnlock, m);
  if (--m->depth == 0) { unlock_impl(m); wrote(m); }
}

bool cv_wait(CvState* cv, MutexState* m, bool timed, long long deadline) noexcept {
  ThreadRec* me = tl_self;
  point(Op::CvWait, cv);
  bool spurious = false;
  if (!g.dry && g.opt.allow_spurious && !g.exhausted) {
    if (g.strat == 0) spurious = g.ch && !g.ch->exhausted() && g.ch->chance(1, 8);
    else spurious = rnd() % 8 == 0;
  }
  unlock_impl(m);
  g.writes++;
  bool timed_out = false;
  if (spurious) {
    g.res.spurious++;
    point_impl(Op::User, nullptr, true);
  } else if (timed && deadline <= g.clock) {
    timed_out = true;
    point_impl(Op::User, nullptr, true);
  } else {
    me->st = ThreadRec::BlockCv; me->obj = cv; me->timed = timed; me->deadline = deadline; me->timed_out = false;
    block(me);
    timed_out = me->timed_out;
    me->timed = false;
  }
  lock_loop(me, m);
  return timed_out;
}

void cv_notify(CvState* cv, bool all) noexcept {
  point(Op::CvNotify, cv);
  g.writes++;
  std::vector<ThreadRec*> w;
  for (auto* t : g.th) if (t->st == ThreadRec::BlockCv && t->obj == cv) w.push_back(t);
  if (w.empty()) return;
  if (all) { for (auto* t : w) { t->st = ThreadRec::Runnable; t->timed = false; } return; }
  ThreadRec* t = w[(g.dry || g.strat == 0) ? 0 : rnd() % w.size()];
  t->st = ThreadRec::Runnable; t->timed = false;
}

ThreadRec* thread_create(std::function<void()> fn, void* real_out) {
  ThreadRec* rec = alloc_rec();
  rec->id = (int)g.th.size();
  rec->fn = std::move(fn);
  rec->prio = (long)(rnd() % 1000);
  g.th.push_back(rec);
  g.res.threads = std::max<int>(g.res.threads, (int)g.th.size());
  g.writes++;
  (void)real_out;
  if (!rec->has_worker) {
    // OS threads are pooled across cases: creating a thread per case costs far
    // more (mmap/munmap of stacks under ASan) than the cases themselves.
    rec->has_worker = true;
    sem_t ready; sem_init(&ready, 0, 0);
    std::thread([rec, &ready] {
      rec->tid = std::this_thread::get_id();
      sem_post(&ready);
      for (;;) {
        sem_wait(&rec->sem);
        tl_self = rec;
        rec->fn();
        rec->fn = nullptr;
        finish(rec);
      }
    }).detach();
    sem_wait(&ready);
    sem_destroy(&ready);
  }
  point(Op::ThreadCreate, rec);
  return rec;
}

void thread_join(ThreadRec* rec) noexcept {
  if (!active()) return;  // the end of the run already joined every thread
  ThreadRec* me = tl_self;
  point(Op::ThreadJoin, rec);
  while (rec->st != ThreadRec::Finished) {
    me->st = ThreadRec::BlockJoin; me->obj = rec; me->timed = false;
    block(me);
  }
}
void thread_detach(ThreadRec*) noexcept {}
std::thread::id thread_id(ThreadRec* r) noexcept { return r->tid; }

void yield_now() noexcept {
  if (!active()) return;
  point_impl(Op::Yield, nullptr, true);
}
long long clock_peek_ns() noexcept { return g.clock; }
long long clock_now_ns() noexcept {
  if (!active()) return g.clock;
  point(Op::ClockNow, nullptr);
  return g.clock;
}
void advance_clock_ns(long long d) noexcept { g.clock += d; wake_expired(); }
void sleep_until_ns(long long dl) noexcept {
  ThreadRec* me = tl_self;
  point(Op::Sleep, nullptr);
  if (dl <= g.clock) return;
  me->st = ThreadRec::Sleeping; me->timed = true; me->deadline = dl; me->timed_out = false;
  block(me);
  me->timed = false;
}

int epoll_wait_hook(int epfd, epoll_event* ev, int maxev, int timeout) noexcept {
  // never sleep in the kernel while holding the run token: poll, and if nothing
  // is ready let other threads run (they are the only source of wake-ups that
  // the scheduler controls); fall back to short real sleeps for kernel timers.
  int spins = 0;
  for (;;) {
    int r = ::epoll_wait(epfd, ev, maxev, 0);
    if (r != 0 || timeout == 0) return r;
    bool others = false;
    for (auto* t : g.th) if (t != tl_self && t->st == ThreadRec::Runnable) others = true;
    if (others) { point_impl(Op::Epoll, nullptr, true); continue; }
    // nothing else can run: wait in real time for the kernel (timerfd / pipe readiness)
    r = ::epoll_wait(epfd, ev, maxev, 2);
    if (r != 0) return r;
    if (++spins > 2500) report_stuck("deadlock", "epoll_wait never becomes ready and no other thread can run");
    point_impl(Op::Epoll, nullptr, true);
  }
}

long uring_enter_hook(long fd, long to_submit, long min_complete, long flags, const void* sig, long sigsz) noexcept {
  // 1. submit (never blocks); 2. wait for completions with a bounded kernel wait (IORING_ENTER_EXT_ARG timeout), giving the run
  // token to other threads between attempts: they are the only source of wake-ups the scheduler controls
  const long GETEVENTS = 1, EXT_ARG = 8;
  struct ts_t { long long tv_sec, tv_nsec; };
  struct arg_t { unsigned long long sigmask; unsigned sigmask_sz; unsigned pad; unsigned long long ts; };
  long submitted = 0;
  if (to_submit > 0 || min_complete == 0) {
    submitted = ::syscall(SYS_io_uring_enter, fd, to_submit, 0L, flags & ~GETEVENTS, sig, sigsz);
    if (submitted < 0) return submitted;
    point_impl(Op::Epoll, nullptr, false);
    if (min_complete == 0) return submitted;
  }
  int spins = 0;
  for (;;) {
    bool others = false;
    for (auto* t : g.th) if (t != tl_self && t->st == ThreadRec::Runnable) others = true;
    ts_t ts{0, others ? 0 : 2000000};
    arg_t arg{0, 0, 0, (unsigned long long)(uintptr_t)&ts};
    long r = ::syscall(SYS_io_uring_enter, fd, 0L, min_complete, GETEVENTS | EXT_ARG, &arg, (long)sizeof(arg));
    if (r >= 0) return submitted;
    if (errno != ETIME && errno != EINTR && errno != EAGAIN && errno != EBUSY) return r;
    if (!others && ++spins > 2500) report_stuck("deadlock", "io_uring_enter never sees a completion and no other thread can run");
    point_impl(Op::Epoll, nullptr, true);
  }
}

static long g_io_nth[2] = {-1, -1}, g_io_err[2] = {0, 0}, g_io_count[2] = {0, 0};
long io_fault(int which) noexcept { long k = g_io_count[which]++; return (k == g_io_nth[which]) ? g_io_err[which] : 0; }
void set_io_fault(int which, long nth, long err) noexcept { g_io_nth[which] = nth; g_io_err[which] = err; g_io_count[which] = 0; }
long io_calls(int which) noexcept { return g_io_count[which]; }

Result run(vk::Choice& c, const Options& opts, const std::function<void()>& scenario) {
  g.opt = opts;
  g.res = Result();
  long est = 200;
  if (opts.dry_run) {
    g.dry = true; g.ch = nullptr; g.strat = 0; g.sched_desc = "default (dry run)";
    run_once(scenario);
    est = g.steps;
    g.dry = false;
  }
  g.ch = &c;
  g.res = Result();
  setup_strategy(est);
  run_once(scenario);
  g.res.steps = (int)g.steps;
  g.res.schedule = g.sched_desc;
  g.ch = nullptr;
  return g.res;
}

}  // namespace detsched
