// detsched shim — force-included (-include) in front of every libunifex source
// and every harness of the schedule-controlled build configurations.
//
// It pre-includes the whole standard library (so that the macro renames below
// can never hit a standard header), declares replacement types next to the
// originals in namespace std, and then renames the identifiers libunifex uses:
//
//   std::atomic<T>            -> std::verif_atomic<T>      (hook before every op)
//   std::mutex                -> std::verif_mutex          (modelled, never blocks)
//   std::condition_variable   -> std::verif_condition_variable (+ spurious wake-ups)
//   std::thread               -> std::verif_thread         (real thread, token-scheduled)
//   std::this_thread::yield / sleep_until / sleep_for
//   std::chrono::steady_clock -> virtual clock
//   std::atomic_thread_fence  -> scheduling point + real fence
//
// No file in /repo is edited.  Outside an active detsched case every
// replacement passes straight through to the real primitive.
#pragma once
#ifndef VK_DETSCHED_SHIM_HPP
#define VK_DETSCHED_SHIM_HPP

#include <bits/stdc++.h>
#include <sys/epoll.h>
#include <sys/eventfd.h>
#include <sys/timerfd.h>
#include <unistd.h>

#include "detsched/api.hpp"

namespace std {

// ------------------------------------------------------------------ atomic
template <class T>
struct verif_atomic : atomic<T> {
  using base = atomic<T>;
  verif_atomic() noexcept = default;
  constexpr verif_atomic(T v) noexcept : base(v) {}
  verif_atomic(const verif_atomic&) = delete;
  verif_atomic& operator=(const verif_atomic&) = delete;

  T load(memory_order o = memory_order_seq_cst) const noexcept {
    ::detsched::point(::detsched::Op::Load, this);
    return base::load(o);
  }
  operator T() const noexcept { return load(); }
  void store(T v, memory_order o = memory_order_seq_cst) noexcept {
    ::detsched::point(::detsched::Op::Store, this);
    base::store(v, o);
    ::detsched::wrote(this);
  }
  T operator=(T v) noexcept { store(v); return v; }
  T exchange(T v, memory_order o = memory_order_seq_cst) noexcept {
    ::detsched::point(::detsched::Op::Rmw, this);
    T r = base::exchange(v, o);
    ::detsched::wrote(this);
    return r;
  }
  bool compare_exchange_weak(T& e, T d, memory_order s, memory_order f) noexcept {
    ::detsched::point(::detsched::Op::Cas, this);
    if (::detsched::spurious_cas_failure()) { e = base::load(f); return false; }
    bool ok = base::compare_exchange_strong(e, d, s, f);
    if (ok) ::detsched::wrote(this); else ::detsched::cas_failed(this);
    return ok;
  }
  bool compare_exchange_weak(T& e, T d, memory_order o = memory_order_seq_cst) noexcept {
    return compare_exchange_weak(e, d, o, ::detsched::fail_order(o));
  }
  bool compare_exchange_strong(T& e, T d, memory_order s, memory_order f) noexcept {
    ::detsched::point(::detsched::Op::Cas, this);
    bool ok = base::compare_exchange_strong(e, d, s, f);
    if (ok) ::detsched::wrote(this); else ::detsched::cas_failed(this);
    return ok;
  }
  bool compare_exchange_strong(T& e, T d, memory_order o = memory_order_seq_cst) noexcept {
    return compare_exchange_strong(e, d, o, ::detsched::fail_order(o));
  }
#define VK_RMW(name)                                                                          \
  template <class B = base, class... A>                                                       \
  auto name(A... a) noexcept -> decltype(std::declval<B&>().name(a...)) {                     \
    ::detsched::point(::detsched::Op::Rmw, this);                                             \
    auto r = base::name(a...);                                                                \
    ::detsched::wrote(this);                                                                  \
    return r;                                                                                 \
  }
  VK_RMW(fetch_add) VK_RMW(fetch_sub) VK_RMW(fetch_and) VK_RMW(fetch_or) VK_RMW(fetch_xor)
#undef VK_RMW
  template <class U = T> auto operator++() noexcept -> decltype(std::declval<atomic<U>&>().fetch_add(1) + 1) { return fetch_add(1) + 1; }
  template <class U = T> auto operator++(int) noexcept -> decltype(std::declval<atomic<U>&>().fetch_add(1)) { return fetch_add(1); }
  template <class U = T> auto operator--() noexcept -> decltype(std::declval<atomic<U>&>().fetch_sub(1) - 1) { return fetch_sub(1) - 1; }
  template <class U = T> auto operator--(int) noexcept -> decltype(std::declval<atomic<U>&>().fetch_sub(1)) { return fetch_sub(1); }
  template <class V, class B = base> auto operator+=(V v) noexcept -> decltype(std::declval<B&>().fetch_add(v) + v) { return fetch_add(v) + v; }
  template <class V, class B = base> auto operator-=(V v) noexcept -> decltype(std::declval<B&>().fetch_sub(v) - v) { return fetch_sub(v) - v; }
  template <class V, class B = base> auto operator&=(V v) noexcept -> decltype(std::declval<B&>().fetch_and(v) & v) { return fetch_and(v) & v; }
  template <class V, class B = base> auto operator|=(V v) noexcept -> decltype(std::declval<B&>().fetch_or(v) | v) { return fetch_or(v) | v; }
  template <class V, class B = base> auto operator^=(V v) noexcept -> decltype(std::declval<B&>().fetch_xor(v) ^ v) { return fetch_xor(v) ^ v; }
};

inline void verif_atomic_thread_fence(memory_order o) noexcept {
  ::detsched::point(::detsched::Op::Fence, nullptr);
  atomic_thread_fence(o);
}

// ------------------------------------------------------------------ mutex
struct verif_mutex {
  verif_mutex() noexcept = default;
  verif_mutex(const verif_mutex&) = delete;
  verif_mutex& operator=(const verif_mutex&) = delete;
  void lock() { if (::detsched::active()) ::detsched::mutex_lock(&m_); else real_.lock(); }
  bool try_lock() { return ::detsched::active() ? ::detsched::mutex_try_lock(&m_) : real_.try_lock(); }
  void unlock() { if (::detsched::active()) ::detsched::mutex_unlock(&m_); else real_.unlock(); }
  ::detsched::MutexState m_;
  mutex real_;
};

struct verif_recursive_mutex {
  verif_recursive_mutex() noexcept = default;
  verif_recursive_mutex(const verif_recursive_mutex&) = delete;
  verif_recursive_mutex& operator=(const verif_recursive_mutex&) = delete;
  void lock() { if (::detsched::active()) ::detsched::rmutex_lock(&m_); else real_.lock(); }
  bool try_lock() { return ::detsched::active() ? ::detsched::rmutex_try_lock(&m_) : real_.try_lock(); }
  void unlock() { if (::detsched::active()) ::detsched::rmutex_unlock(&m_); else real_.unlock(); }
  ::detsched::MutexState m_;
  recursive_mutex real_;
};

namespace chrono {
struct verif_steady_clock {
  typedef nanoseconds duration;
  typedef duration::rep rep;
  typedef duration::period period;
  typedef chrono::time_point<verif_steady_clock, duration> time_point;
  static constexpr bool is_steady = true;
  static time_point now() noexcept { return time_point(duration(::detsched::clock_now_ns())); }
};
}  // namespace chrono

// ------------------------------------------------------------------ condition_variable
struct verif_condition_variable {
  verif_condition_variable() noexcept = default;
  verif_condition_variable(const verif_condition_variable&) = delete;
  verif_condition_variable& operator=(const verif_condition_variable&) = delete;

  void notify_one() noexcept { if (::detsched::active()) ::detsched::cv_notify(&c_, false); else real_.notify_one(); }
  void notify_all() noexcept { if (::detsched::active()) ::detsched::cv_notify(&c_, true); else real_.notify_all(); }

  void wait(unique_lock<verif_mutex>& l) {
    if (::detsched::active()) ::detsched::cv_wait(&c_, &l.mutex()->m_, false, 0);
    else { unique_lock<mutex> rl(l.mutex()->real_, adopt_lock); real_.wait(rl); rl.release(); }
  }
  template <class Pred> void wait(unique_lock<verif_mutex>& l, Pred p) { while (!p()) wait(l); }

  template <class Clock, class Dur>
  cv_status wait_until(unique_lock<verif_mutex>& l, const chrono::time_point<Clock, Dur>& tp) {
    if (::detsched::active()) {
      long long rel = chrono::duration_cast<chrono::nanoseconds>(tp - Clock::now()).count();
      long long dl = ::detsched::clock_peek_ns() + (rel > 0 ? rel : 0);
      return ::detsched::cv_wait(&c_, &l.mutex()->m_, true, dl) ? cv_status::timeout : cv_status::no_timeout;
    }
    unique_lock<mutex> rl(l.mutex()->real_, adopt_lock);
    auto rel = tp - Clock::now();
    auto r = real_.wait_for(rl, rel);
    rl.release();
    return r;
  }
  template <class Clock, class Dur, class Pred>
  bool wait_until(unique_lock<verif_mutex>& l, const chrono::time_point<Clock, Dur>& tp, Pred p) {
    while (!p()) if (wait_until(l, tp) == cv_status::timeout) return p();
    return true;
  }
  template <class Rep, class Per>
  cv_status wait_for(unique_lock<verif_mutex>& l, const chrono::duration<Rep, Per>& d) {
    return wait_until(l, chrono::verif_steady_clock::now() + chrono::duration_cast<chrono::nanoseconds>(d));
  }
  template <class Rep, class Per, class Pred>
  bool wait_for(unique_lock<verif_mutex>& l, const chrono::duration<Rep, Per>& d, Pred p) {
    return wait_until(l, chrono::verif_steady_clock::now() + chrono::duration_cast<chrono::nanoseconds>(d), std::move(p));
  }
  ::detsched::CvState c_;
  condition_variable real_;
};

// ------------------------------------------------------------------ thread
struct verif_thread {
  using id = thread::id;
  using native_handle_type = thread::native_handle_type;
  verif_thread() noexcept = default;
  template <class F, class... A, class = enable_if_t<!is_same_v<decay_t<F>, verif_thread>>>
  explicit verif_thread(F&& f, A&&... a) {
    auto bound = [fn = decay_t<F>(std::forward<F>(f)), tup = std::make_tuple(decay_t<A>(std::forward<A>(a))...)]() mutable {
      std::apply(std::move(fn), std::move(tup));
    };
    if (::detsched::active()) {
      rec_ = ::detsched::thread_create(std::function<void()>(move_only_fn_(std::move(bound))), &real_);
    } else {
      real_ = thread(std::move(bound));
    }
  }
  verif_thread(verif_thread&& o) noexcept : real_(std::move(o.real_)), rec_(o.rec_) { o.rec_ = nullptr; }
  verif_thread& operator=(verif_thread&& o) noexcept {
    if (joinable()) std::terminate();
    real_ = std::move(o.real_); rec_ = o.rec_; o.rec_ = nullptr; return *this;
  }
  verif_thread(const verif_thread&) = delete;
  ~verif_thread() { if (joinable()) std::terminate(); }
  bool joinable() const noexcept { return rec_ != nullptr || real_.joinable(); }
  id get_id() const noexcept { return rec_ ? ::detsched::thread_id(rec_) : real_.get_id(); }
  void join() {
    if (rec_) { ::detsched::thread_join(rec_); rec_ = nullptr; return; }
    real_.join();
  }
  void detach() { if (rec_) { ::detsched::thread_detach(rec_); rec_ = nullptr; return; } real_.detach(); }
  void swap(verif_thread& o) noexcept { real_.swap(o.real_); std::swap(rec_, o.rec_); }
  static unsigned hardware_concurrency() noexcept { return 2; }
  native_handle_type native_handle() { return real_.native_handle(); }

 private:
  // std::function needs a copyable callable; wrap the move-only closure in a shared_ptr
  template <class C>
  static auto move_only_fn_(C&& c) {
    auto sp = std::make_shared<decay_t<C>>(std::forward<C>(c));
    return [sp]() { (*sp)(); };
  }
  thread real_;
  ::detsched::ThreadRec* rec_ = nullptr;
};

namespace this_thread {
inline void verif_yield() noexcept { if (::detsched::active()) ::detsched::yield_now(); else yield(); }
template <class Clock, class Dur>
inline void verif_sleep_until(const chrono::time_point<Clock, Dur>& tp) {
  if (::detsched::active()) {
    long long rel = chrono::duration_cast<chrono::nanoseconds>(tp - Clock::now()).count();
    ::detsched::sleep_until_ns(::detsched::clock_peek_ns() + (rel > 0 ? rel : 0));
  } else {
    auto rel = tp - Clock::now();
    if (rel > rel.zero()) sleep_for(rel);
  }
}
template <class Rep, class Per>
inline void verif_sleep_for(const chrono::duration<Rep, Per>& d) {
  if (::detsched::active()) ::detsched::sleep_until_ns(::detsched::clock_peek_ns() + chrono::duration_cast<chrono::nanoseconds>(d).count());
  else sleep_for(d);
}
}  // namespace this_thread

using verif_atomic_char = verif_atomic<char>;
using verif_atomic_uintptr_t = verif_atomic<uintptr_t>;

}  // namespace std

// keep handles on the real primitives for the harness kit
namespace detsched {
template <class T> using real_atomic = std::atomic<T>;
using real_mutex = std::mutex;
using real_thread = std::thread;
using real_steady_clock = std::chrono::steady_clock;
}  // namespace detsched

// epoll_wait under detsched: never block in the kernel while holding the run token
static inline int verif_epoll_wait(int epfd, struct epoll_event* ev, int maxev, int timeout) {
  if (!::detsched::active()) return ::epoll_wait(epfd, ev, maxev, timeout);
  return ::detsched::epoll_wait_hook(epfd, ev, maxev, timeout);
}

// io_uring_enter (issued through syscall(2) by source/linux/io_uring_syscall.cpp) under detsched: submissions go straight through,
// waiting for completions never blocks in the kernel while this thread holds the run token
#include <sys/syscall.h>
#include <unistd.h>
template <class... A>
static inline long verif_syscall(long nr, A... a) {
#ifdef __NR_io_uring_enter
  if (nr == __NR_io_uring_enter && ::detsched::active()) {
    if constexpr (sizeof...(A) == 6) return ::detsched::uring_enter_hook(a...);
  }
#else
  if (nr == 426 && ::detsched::active()) {
    if constexpr (sizeof...(A) == 6) return ::detsched::uring_enter_hook(a...);
  }
#endif
  return ::syscall(nr, a...);
}

// readv / writev inside libunifex's I/O contexts: generated faults (fail with a chosen errno) and short transfers
#include <sys/uio.h>
static inline ssize_t verif_readv(int fd, const struct iovec* iov, int n) {
  long f = ::detsched::io_fault(0);
  if (f > 0) { errno = (int)f; return -1; }
  if (f < 0 && n == 1 && iov[0].iov_len > 1) { struct iovec v = iov[0]; v.iov_len = iov[0].iov_len / 2; return ::readv(fd, &v, 1); }   // short read
  return ::readv(fd, iov, n);
}
static inline ssize_t verif_writev(int fd, const struct iovec* iov, int n) {
  long f = ::detsched::io_fault(1);
  if (f > 0) { errno = (int)f; return -1; }
  if (f < 0 && n == 1 && iov[0].iov_len > 1) { struct iovec v = iov[0]; v.iov_len = iov[0].iov_len / 2; return ::writev(fd, &v, 1); }   // short write
  return ::writev(fd, iov, n);
}

#define atomic verif_atomic
#define atomic_char verif_atomic_char
#define atomic_uintptr_t verif_atomic_uintptr_t
#define atomic_thread_fence verif_atomic_thread_fence
#define mutex verif_mutex
#define recursive_mutex verif_recursive_mutex
#define condition_variable verif_condition_variable
#define thread verif_thread
#define yield verif_yield
#define sleep_until verif_sleep_until
#define sleep_for verif_sleep_for
#define steady_clock verif_steady_clock
#define epoll_wait verif_epoll_wait
#define syscall verif_syscall
#define readv verif_readv
#define writev verif_writev

#endif  // VK_DETSCHED_SHIM_HPP
