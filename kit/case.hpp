// Core of the harness kit: the choice source every generated case is decoded
// from, the per-case context (violations, labels, non-triviality, trace) and
// the entry points every harness implements.
//
//   bytes ──Choice──▶ decoded case ──run──▶ trace ──oracles──▶ ctx().fail(...)
//
// Decoders map 0 to the simplest choice, so running out of bytes and byte-wise
// shrinking both move towards simpler cases.
#pragma once
#include <cstdint>
#include <cstddef>
#include <cstdio>
#include <cstdarg>
#include <string>
#include <vector>
#include <map>

namespace vk {

struct Choice {
  const uint8_t* d = nullptr;
  size_t n = 0;
  size_t pos = 0;
  uint64_t h = 1469598103934665603ull;  // hash of decoded values == identity of the decoded case

  Choice() = default;
  Choice(const uint8_t* data, size_t size) : d(data), n(size) {}

  void mix(uint64_t v) {
    h ^= v + 0x9e3779b97f4a7c15ull + (h << 6) + (h >> 2);
    h *= 1099511628211ull;
  }
  uint32_t raw() { return pos < n ? d[pos++] : (pos++, 0u); }
  // uniform-ish value in [0,k); k<=1 consumes nothing
  uint32_t upto(uint32_t k) {
    if (k <= 1) return 0;
    uint32_t v;
    if (k <= 256) v = raw() % k;
    else if (k <= 65536) { uint32_t a = raw(); uint32_t b = raw(); v = (a | (b << 8)) % k; }
    else { uint32_t a = raw(), b = raw(), c = raw(), e = raw(); v = (a | (b << 8) | (c << 16) | (e << 24)) % k; }
    mix(v + 1);
    return v;
  }
  // value in [lo,hi]
  int range(int lo, int hi) { return lo + (int)upto((uint32_t)(hi - lo + 1)); }
  bool flag() { return upto(2) != 0; }
  // true with probability ~num/den (0 -> false)
  bool chance(uint32_t num, uint32_t den) { return upto(den) >= den - num; }
  bool exhausted() const { return pos >= n; }
};

struct Ctx {
  // --- per-case state (reset by the driver before each case)
  bool failed = false;
  std::string fail_sig;        // short stable signature of the first violation (oracle id)
  std::string fail_msg;        // human readable
  std::string fail_prop;       // property tag of the oracle that fired
  bool nontrivial = false;
  bool discard = false;        // case excluded (e.g. matches a known finding); counted separately
  std::string discard_why;
  std::string desc;            // decoded case, one line
  std::string digest;          // what a user of the library can observe of this case (compared across build configurations, C20)
  std::vector<std::string> labels;
  std::vector<std::string> trace;
  // --- run-wide settings
  bool tracing = false;        // record trace lines (replay / sample capture)
  bool live_trace = false;     // also print them as they happen (debugging crashes)
  std::string prop;            // property being checked (selects oracles/weights), "" = all
  std::string workdir = ".";
  std::map<std::string, std::string> args;  // extra --key=value harness arguments

  void reset_case() {
    failed = false; fail_sig.clear(); fail_msg.clear(); fail_prop.clear();
    nontrivial = false; discard = false; discard_why.clear(); desc.clear(); digest.clear();
    labels.clear(); trace.clear();
  }
  // Record a violation.  Never throws (may be called from noexcept library
  // callbacks on any thread).  The first one wins; it is also written to
  // <workdir>/violation.txt at once, so that a later crash keeps it.
  void fail(const char* prop_tag, const char* sig, const char* fmt, ...) __attribute__((format(printf, 4, 5)));
  void label(const char* l) { labels.emplace_back(l); }
  void label(const std::string& l) { labels.push_back(l); }
  void tr(const char* fmt, ...) __attribute__((format(printf, 2, 3)));
  bool want(const char* p) const { return prop.empty() || prop == p; }
  std::string arg(const std::string& k, const std::string& dflt = "") const {
    auto it = args.find(k); return it == args.end() ? dflt : it->second;
  }
  long argi(const std::string& k, long dflt) const {
    auto it = args.find(k); return it == args.end() ? dflt : atol(it->second.c_str());
  }
};

Ctx& ctx();

[[noreturn]] void fatal_exit();   // violation recorded, case cannot continue: flush + _exit(4)
// The running case turned out to belong to a known finding in a way that cannot be continued (e.g. std::terminate was
// called): count it as excluded, flush the counters and leave with exit code 77; the shard runner starts a fresh process
// for the rest of the budget.  In replay mode: report "discarded" and exit 0.
[[noreturn]] void excluded_exit(const char* why);

std::string sfmt(const char* fmt, ...) __attribute__((format(printf, 1, 2)));

}  // namespace vk

// ---- every harness implements these -------------------------------------
// Name used in evidence / replay files.
extern "C" const char* vk_harness_name();
// Decode one case from `c`, run it against libunifex, evaluate oracles via
// vk::ctx().fail(...).  Must be a pure function of the bytes.
void vk_run_case(vk::Choice& c);
// Optional hooks (weak defaults in main.cpp)
void vk_harness_init();                 // once, after args are parsed
const char* vk_nontrivial_rule();       // text for the evidence file
