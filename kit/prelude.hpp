// Force-included (-include) into every translation unit the verification
// framework compiles: libunifex's own sources and the harnesses.  It routes
// UNIFEX_ASSERT into the harness oracle so libunifex's internal assertions are
// reported as violations with the current case attached, instead of a bare
// abort().
#pragma once

extern "C" void vk_unifex_assert_fail(const char* expr, const char* file, int line) noexcept;

#ifndef VK_KEEP_ASSERT
#define UNIFEX_ASSERT(expr) \
  ((expr) ? (void)0 : ::vk_unifex_assert_fail(#expr, __FILE__, __LINE__))
#endif
