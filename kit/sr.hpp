// Sender/receiver harness kit: harness-owned endpoints around a libunifex
// expression.  Everything observable goes through a per-case World: event
// trace, live-object registry, fault plan, pending (deferred) events, logical
// execution contexts, the root stop source.  Sequential ("event") mode: the
// driver owns the only thread and decides the order of deferred completions
// and stop requests.
#pragma once
#include "kit/case.hpp"

#include <unifex/blocking.hpp>
#include <unifex/get_allocator.hpp>
#include <unifex/get_stop_token.hpp>
#include <unifex/inplace_stop_token.hpp>
#include <unifex/manual_lifetime.hpp>
#include <unifex/receiver_concepts.hpp>
#include <unifex/scheduler_concepts.hpp>
#include <unifex/sender_concepts.hpp>
#include <unifex/stop_token_concepts.hpp>
#if UNIFEX_ENABLE_CONTINUATION_VISITATIONS
#include <unifex/async_trace.hpp>
#endif

#include <cstdlib>
#include <cstring>
#include <exception>
#include <functional>
#include <memory>
#include <string>
#include <unordered_map>
#include <vector>

namespace sr {

enum Chan : int { NONE = -1, VALUE = 0, ERROR = 1, DONE = 2 };
inline const char* chan_name(int c) { return c == VALUE ? "value" : c == ERROR ? "error" : c == DONE ? "done" : "none"; }

// thrown by fault injection (k = index of the throwable event that fired)
struct Injected { long k; };
// thrown by leaves that complete with an exception_ptr error
struct LeafFailure { int leaf; int inst; };
// a second, non-exception error type
struct Err { int code; };

// what an error slot inside a destroyed leaf operation state holds: reading it means an adaptor kept a reference to the error it was
// handed after destroying the child operation the error lived in
struct DeadErrorSlot {};
inline const std::exception_ptr& dead_error_slot() { static const std::exception_ptr p = std::make_exception_ptr(DeadErrorSlot{}); return p; }

// error identity, comparable between implementation and model
inline long error_code(const std::exception_ptr& e) {
  if (!e) return 4444445;
  try { std::rethrow_exception(e); }
  catch (const DeadErrorSlot&) { return 4444444; }
  catch (const Injected&) { return 1000000; }
  catch (const LeafFailure& f) { return 2000000 + f.leaf * 100 + f.inst; }
  catch (...) { return 999; }
}
inline long error_code(const Err& e) { return 3000000 + e.code; }

inline uint64_t mix(uint64_t node, uint64_t payload) { return payload * 1000003ull + node * 7919ull + 1; }

// ---------------------------------------------------------------------------
struct PendingEvent {
  int leaf; int inst; int kind;      // kind 0: natural completion, 1: deferred done after stop, 2: context item
  void* op; void (*fire)(void* op, int kind);
};

struct Result { int chan = NONE; uint64_t payload = 0; long err = 0; };

struct LeafSpec {
  // outcome per attempt (instance): last entry repeats
  struct Attempt { int chan = VALUE; int errkind = 0; int timing = 0; int ctx = 0; };
  std::vector<Attempt> attempts;
  int on_stop = 0;                   // 0 ignore, 1 complete with done inside the stop callback, 2 deferred done
  bool stop_root_in_start = false;   // requests stop on the root source from inside start()
  bool connect_throws_never = true;
  const Attempt& at(int inst) const { return attempts[(size_t)std::min<int>(inst, (int)attempts.size() - 1)]; }
};

struct LeafRun {            // per (leaf, instance) observations
  bool connected = false, started = false, completed = false, destroyed = false, stop_seen = false;
  int chan = NONE;
  long t_start = -1, t_complete = -1, t_stop = -1;
  int start_ctx = -1;
  bool tok_stop_possible = false, tok_stopped_at_start = false;
  long q_sched = -2, q_tag = -2, q_alloc = -2;   // receiver-query snapshots (-2: not asked, -1: default/unavailable)
  int trace_root = -1;   // continuation-visitation builds: does async_trace(receiver) taken in start() reach the outermost receiver (1/0; -1 not taken)
  int trace_len = 0;
};

struct World {
  // trace / time
  long seq = 0;
  // fault plan
  long throw_counter = 0, throw_at = -1; bool fault_fired = false; const char* fault_site = "";
  // registry of tracked objects: address -> state (1 live value, 2 moved-from)
  std::unordered_map<const void*, int> live;
  long tracked_ctor = 0, tracked_copy = 0, tracked_move = 0, tracked_dtor = 0;
  long connects = 0, op_destroys = 0;
  // leaves
  std::vector<LeafSpec> spec;
  std::vector<std::vector<LeafRun>> runs;    // [leaf][inst]
  std::vector<int> next_inst;
  std::vector<PendingEvent> pending;
  // node call counters (functions)
  std::unordered_map<int, int> calls;
  std::unordered_map<int, int> node_arg;     // runtime data for nodes (predicate counts, flags)
  std::unordered_map<int, unifex::inplace_stop_source*> bound_ss;
  std::unordered_map<int, uint64_t> bound_val;
  std::unordered_map<int, long> bound_err;
  int fault_node = -1, fault_call = -1;      // modelled fault: the callable of this node throws on this call
  int stop_call_node = -1, stop_call_idx = -1;   // the callable of this node requests stop on the root source on this call (before doing its work)
  bool tracked_faults = true;                // value copies/moves are throw points (off when that class is a known finding)
  bool values_in_op_state = true;            // leaves deliver every other value from an object inside their operation state
  const std::type_info* root_type = nullptr;   // type of the outermost receiver (async_trace oracle)
  bool abandoned = false;                    // case ends with a never-completing leaf (behind unstoppable): teardown of running ops is the harness's doing
  // contexts
  int current_ctx = 0;
  // root
  int root_signals = 0; Result root; int root_ctx = -1; bool root_start_returned = false; bool root_completed_in_start = false;
  bool in_start = false; bool started = false;
  std::function<void()> on_root_complete;    // destroy-on-completion hook
  std::function<void()> request_root_stop;   // set by the runner
  bool root_stop_requested = false;
  long t_root = -1;

  long tick() { return ++seq; }
  LeafRun& run(int leaf, int inst) {
    if ((size_t)leaf >= runs.size()) runs.resize((size_t)leaf + 1);
    auto& v = runs[(size_t)leaf];
    if ((size_t)inst >= v.size()) v.resize((size_t)inst + 1);
    return v[(size_t)inst];
  }
  int new_inst(int leaf) {
    if ((size_t)leaf >= next_inst.size()) next_inst.resize((size_t)leaf + 1, 0);
    return next_inst[(size_t)leaf]++;
  }
  // single throw point accounting (copy/move of throwing Tracked, callable invocation, leaf connect)
  void throw_point(const char* site) {
    long k = throw_counter++;
    if (k == throw_at) { fault_fired = true; fault_site = site; throw Injected{k}; }
  }
  void remove_pending(void* op) {
    for (size_t i = 0; i < pending.size();) if (pending[i].op == op) pending.erase(pending.begin() + (long)i); else ++i;
  }
};

inline World*& world_ptr() { static World* w = nullptr; return w; }
inline World& W() { return *world_ptr(); }

#define SR_FAIL(prop, sig, ...) ::vk::ctx().fail(prop, sig, __VA_ARGS__)
#define SR_TR(...) do { if (::vk::ctx().tracing) ::vk::ctx().tr(__VA_ARGS__); } while (0)

// ---------------------------------------------------------------------------
// Tracked: the value type carried through the expression.  NX = nothrow move/copy.
template <bool NX>
struct TrackedT {
  uint64_t payload = 0;
  explicit TrackedT(uint64_t p) : payload(p) { reg(1); W().tracked_ctor++; }
  TrackedT(const TrackedT& o) noexcept(NX) : payload(o.payload) {
    if constexpr (!NX) if (W().tracked_faults) W().throw_point("Tracked copy");
    o.check_readable("copied from");
    reg(1); W().tracked_copy++;
  }
  TrackedT(TrackedT&& o) noexcept(NX) : payload(o.payload) {
    if constexpr (!NX) if (W().tracked_faults) W().throw_point("Tracked move");
    o.check_readable("moved from");
    reg(1); W().tracked_move++;
    auto it = W().live.find(&o); if (it != W().live.end()) it->second = 2;
  }
  TrackedT& operator=(const TrackedT& o) noexcept(NX) {
    if constexpr (!NX) if (W().tracked_faults) W().throw_point("Tracked copy-assign");
    o.check_readable("copy-assigned from"); check_live("assigned to");
    payload = o.payload; W().live[this] = 1; return *this;
  }
  TrackedT& operator=(TrackedT&& o) noexcept(NX) {
    if constexpr (!NX) if (W().tracked_faults) W().throw_point("Tracked move-assign");
    o.check_readable("move-assigned from"); check_live("assigned to");
    payload = o.payload; W().live[this] = 1;
    if (&o != this) { auto it = W().live.find(&o); if (it != W().live.end()) it->second = 2; }
    return *this;
  }
  ~TrackedT() {
    auto& l = W().live; auto it = l.find(this);
    if (it == l.end()) SR_FAIL("C02", "tracked_double_destroy", "a value object at %p was destroyed although it is not alive (double destroy or destroy of never-constructed storage)", (void*)this);
    else l.erase(it);
    W().tracked_dtor++;
  }
  void check_live(const char* what) const {
    if (W().live.find(this) == W().live.end()) SR_FAIL("C02", "tracked_dead_use", "a dead value object at %p was %s", (void*)this, what);
  }
  void check_readable(const char* what) const {
    auto it = W().live.find(this);
    if (it == W().live.end()) SR_FAIL("C02", "tracked_dead_use", "a dead value object at %p was %s", (void*)this, what);
    else if (it->second == 2) SR_FAIL("C02", "tracked_moved_from_use", "a moved-from value object at %p was %s", (void*)this, what);
  }
  uint64_t read() const { check_readable("read"); return payload; }
 private:
  void reg(int st) {
    auto r = W().live.emplace(this, st);
    if (!r.second) SR_FAIL("C02", "tracked_construct_over_live", "a value object was constructed at %p over a live object", (void*)this);
  }
};

// ---------------------------------------------------------------------------
// Harness stop source / token (non-inplace token type): counts registrations
// and records any use after the root receiver has been completed.
struct HStopCbBase {
  // no virtual functions: a vtable would force instantiation of the callback body while the operation
  // state that contains the callback is still an incomplete type
  void (*run_fn)(HStopCbBase*) noexcept = nullptr;
  void run() noexcept { run_fn(this); }
  bool registered = false; bool executing = false; bool was_executing_at_completion = false;
};
struct HStopSource {
  bool stopped = false;
  std::vector<HStopCbBase*> cbs;          // enqueued, not yet executed
  std::vector<HStopCbBase*> executing;    // currently being executed by request_stop()
  bool root_completed = false;
  long polls = 0, regs = 0;
  void note_use(const char* what) {
    if (root_completed) SR_FAIL("C04", "token_used_after_completion", "the receiver's stop token was used (%s) after the receiver had been completed", what);
  }
  void mark_root_completed() {
    if (!cbs.empty()) SR_FAIL("C04", "callback_registered_at_completion", "%zu stop callback(s) of the operation were still registered on the receiver's stop token when the receiver was completed", cbs.size());
    for (auto* c : executing) c->was_executing_at_completion = true;
    root_completed = true;
  }
  bool request_stop() noexcept {
    if (stopped) return true;
    stopped = true;
    while (!cbs.empty()) {
      HStopCbBase* c = cbs.back(); cbs.pop_back();
      c->registered = false; c->executing = true; executing.push_back(c);
      c->run();
      // the callback may have been destroyed inside run(): it then removed itself from `executing`
      for (size_t i = 0; i < executing.size(); ++i) if (executing[i] == c) { c->executing = false; executing.erase(executing.begin() + (long)i); break; }
    }
    return false;
  }
};
template <class F> struct HStopCallback;
struct HStopToken {
  HStopSource* s = nullptr;
  // like std::stop_token (and any token that owns shared state): a moved-from token is disengaged
  HStopToken() noexcept = default;
  explicit HStopToken(HStopSource* src) noexcept : s(src) {}
  HStopToken(const HStopToken&) noexcept = default;
  HStopToken(HStopToken&& o) noexcept : s(o.s) { o.s = nullptr; }
  HStopToken& operator=(const HStopToken&) noexcept = default;
  HStopToken& operator=(HStopToken&& o) noexcept { s = o.s; if (&o != this) o.s = nullptr; return *this; }
  template <class F> using callback_type = HStopCallback<F>;
  bool stop_requested() const noexcept { if (!s) return false; s->polls++; s->note_use("stop_requested()"); return s->stopped; }
  bool stop_possible() const noexcept { return s != nullptr; }
};
template <class F>
struct HStopCallback final : HStopCbBase {
  HStopSource* s; F f;
  template <class T>
  HStopCallback(HStopToken t, T&& fn) noexcept(std::is_nothrow_constructible_v<F, T>) : s(t.s), f((T &&) fn) {
    run_fn = [](HStopCbBase* b) noexcept { static_cast<HStopCallback*>(b)->f(); };
    if (!s) return;
    s->regs++; s->note_use("callback registration");
    if (s->stopped) { f(); }
    else { s->cbs.push_back(this); registered = true; }
  }
  HStopCallback(const HStopCallback&) = delete;
  ~HStopCallback() {
    if (!s) return;
    if (registered) {
      if (s->root_completed) SR_FAIL("C04", "late_deregistration", "a stop callback was still registered and was deregistered only after the receiver had been completed");
      for (size_t i = 0; i < s->cbs.size(); ++i) if (s->cbs[i] == this) { s->cbs.erase(s->cbs.begin() + (long)i); break; }
    } else if (executing) {
      for (size_t i = 0; i < s->executing.size(); ++i) if (s->executing[i] == this) { s->executing.erase(s->executing.begin() + (long)i); break; }
    }
  }
};

// ---------------------------------------------------------------------------
// value type for the custom query: copying preserves it, moving leaves a recognisable moved-from state behind, so an
// adaptor that moves the stored query value out of an lvalue-connected sender is caught on the next connect
struct QVal {
  long v = 0;
  explicit QVal(long x) noexcept : v(x) {}
  QVal(const QVal&) noexcept = default;
  QVal(QVal&& o) noexcept : v(o.v) { o.v = -7; }
  QVal& operator=(const QVal&) noexcept = default;
  QVal& operator=(QVal&& o) noexcept { v = o.v; o.v = -7; return *this; }
  operator long() const noexcept { return v; }
};

// custom receiver query with a "not forwarded" default
inline constexpr struct verif_tag_fn {
  // (no C-variadic fallback: a receiver that does not forward the query must still compile here, whatever its copyability)
  template <class R>
  auto operator()(const R& r) const noexcept {
    if constexpr (unifex::is_tag_invocable_v<verif_tag_fn, const R&>) return unifex::tag_invoke(verif_tag_fn{}, r);
    else return (long)-1;
  }
} verif_tag{};

// ---------------------------------------------------------------------------
// Logical execution contexts (sequential mode): schedule() enqueues a context
// item that the driver fires later; while it runs, current_ctx == c.
struct HSched {
  int ctx = 0;
  struct sender {
    int ctx;
    template <template <class...> class V, template <class...> class T> using value_types = V<T<>>;
    template <template <class...> class V> using error_types = V<>;
    static constexpr bool sends_done = true;
    static constexpr unifex::blocking_kind blocking = unifex::blocking_kind::never;
    static constexpr bool is_always_scheduler_affine = false;
    template <class R> struct op {
      int ctx; R r; int id; bool started = false, done = false;
      using stop_token_t = unifex::stop_token_type_t<R&>;
      void start() noexcept {
        started = true;
        id = W().new_inst(900 + ctx);
        SR_TR("ctx%d: item #%d enqueued", ctx, id);
        W().pending.push_back(PendingEvent{900 + ctx, id, 2, this, [](void* p, int) { static_cast<op*>(p)->fire(); }});
      }
      void fire() noexcept {
        done = true;
        int prev = W().current_ctx; W().current_ctx = ctx;
        SR_TR("ctx%d: item #%d runs", ctx, id);
        if (unifex::get_stop_token(r).stop_requested()) unifex::set_done(std::move(r));
        else unifex::set_value(std::move(r));
        W().current_ctx = prev;
      }
      ~op() { if (started && !done) { SR_FAIL("C02", "ctx_item_destroyed_pending", "a schedule() operation on ctx%d was destroyed while still enqueued", ctx); W().remove_pending(this); } }
    };
    template <class R> friend op<unifex::remove_cvref_t<R>> tag_invoke(unifex::tag_t<unifex::connect>, sender s, R&& r) { return op<unifex::remove_cvref_t<R>>{s.ctx, (R &&) r, 0}; }
  };
  sender schedule() const noexcept { return sender{ctx}; }
  friend bool operator==(HSched a, HSched b) noexcept { return a.ctx == b.ctx; }
  friend bool operator!=(HSched a, HSched b) noexcept { return a.ctx != b.ctx; }
};

// ---------------------------------------------------------------------------
// counting allocator (per-instance ledger shared through a pointer)
struct AllocLedger { long allocs = 0, deallocs = 0, bytes_live = 0; long id = 0; std::unordered_map<void*, size_t> blocks; };
template <class T>
struct CountingAlloc {
  using value_type = T;
  AllocLedger* l = nullptr;
  CountingAlloc() noexcept = default;
  explicit CountingAlloc(AllocLedger* led) noexcept : l(led) {}
  template <class U> CountingAlloc(const CountingAlloc<U>& o) noexcept : l(o.l) {}
  T* allocate(size_t n) {
    if (world_ptr()) W().throw_point("allocation");
    void* p = ::operator new(n * sizeof(T), std::align_val_t(alignof(T) > 16 ? alignof(T) : 16));
    if (l) { l->allocs++; l->bytes_live += (long)(n * sizeof(T)); l->blocks[p] = n * sizeof(T); }
    return static_cast<T*>(p);
  }
  void deallocate(T* p, size_t n) noexcept {
    if (l) {
      auto it = l->blocks.find(p);
      if (it == l->blocks.end()) SR_FAIL("C02", "alloc_foreign_free", "a block was returned to allocator #%ld that it did not allocate", l->id);
      else { if (it->second != n * sizeof(T)) SR_FAIL("C02", "alloc_size_mismatch", "block of %zu bytes returned as %zu bytes", it->second, n * sizeof(T)); l->bytes_live -= (long)it->second; l->blocks.erase(it); }
      l->deallocs++;
    }
    ::operator delete(p, std::align_val_t(alignof(T) > 16 ? alignof(T) : 16));
  }
  template <class U> bool operator==(const CountingAlloc<U>& o) const noexcept { return l == o.l; }
  template <class U> bool operator!=(const CountingAlloc<U>& o) const noexcept { return l != o.l; }
};

// ---------------------------------------------------------------------------
// Leaf senders.  Traits are template parameters (static), behaviour is data.
struct LeafTraits { unifex::blocking_kind blocking = unifex::blocking_kind::maybe; bool sends_done = true; bool affine = false; };

template <class Value> struct leaf_values { template <template <class...> class V, template <class...> class T> using apply = V<T<Value>>; };
template <> struct leaf_values<void> { template <template <class...> class V, template <class...> class T> using apply = V<T<>>; };

template <class Value /* TrackedT<..> or void */, int BlockingKind = 2 /* _block::_enum value: 0 always_inline, 1 always, 2 maybe, 3 never */, bool SendsDone = true>
struct Leaf {
  int id;
  // copying keeps the identity, moving leaves a recognisable moved-from sender behind: an adaptor that moves a child sender
  // out of an lvalue-connected (re-connectable) sender is caught when the moved-from child is connected again
  Leaf(int i) noexcept : id(i) {}
  Leaf(const Leaf&) noexcept = default;
  Leaf(Leaf&& o) noexcept : id(o.id) { o.id = -7; }
  Leaf& operator=(const Leaf&) noexcept = default;
  Leaf& operator=(Leaf&& o) noexcept { id = o.id; if (&o != this) o.id = -7; return *this; }
  template <template <class...> class V, template <class...> class T>
  using value_types = typename leaf_values<Value>::template apply<V, T>;
  // only exception_ptr: let_value's sender traits do not report the predecessor's error types, so a second
  // error type cannot be routed through let_value into adaptors that size storage from error_types (finally)
  template <template <class...> class V> using error_types = V<std::exception_ptr>;
  static constexpr bool sends_done = SendsDone;
  static constexpr unifex::blocking_kind blocking = static_cast<unifex::_block::_enum>(BlockingKind);
  static constexpr bool is_always_scheduler_affine = BlockingKind == 0;   // an always-inline leaf completes inside start(): on the context it was started on

  template <class R>
  struct Op {
    using stop_token_t = unifex::stop_token_type_t<R&>;
    struct StopFn { Op* op; void operator()() noexcept { op->on_stop(); } };
    using cb_t = typename stop_token_t::template callback_type<StopFn>;

    int id; int inst; R r;
    bool started = false, completed = false, cb_live = false, pending_natural = false, pending_done = false;
    bool in_cb_construct = false, stop_during_construct = false;
    bool* destroyed_flag = nullptr;
    unifex::manual_lifetime<cb_t> cb;
    // every other run delivers its value from an object that lives in this operation state (as just(x) does): a parent that
    // destroys the child operation and then still reads the value it was handed by reference is reading a dead object
    struct Empty {};
    using slot_t = std::conditional_t<std::is_void_v<Value>, Empty, Value>;
    unifex::manual_lifetime<slot_t> slot; bool slot_live = false;
    unifex::manual_lifetime<std::exception_ptr> eslot; bool eslot_live = false;   // the same for errors

    Op(int leaf, R&& rr) : id(leaf), inst(-1), r((R &&) rr) {
      W().connects++;
      SR_TR("leaf%d connected", id);
    }
    Op(Op&&) = delete;
    ~Op() {
      if (destroyed_flag) *destroyed_flag = true;
      if (slot_live) { slot_live = false; slot.destruct(); }
      if (eslot_live) { eslot_live = false; eslot.get() = dead_error_slot(); }   // (not destructed: the storage keeps a recognisable value; the sentinel object stays reachable through the global)
      W().op_destroys++;
      if (inst < 0) { SR_TR("leaf%d (never started) destroyed", id); return; }
      auto& run = W().run(id, inst);
      if (run.destroyed) SR_FAIL("C02", "leaf_op_destroyed_twice", "operation state of leaf%d#%d destroyed twice", id, inst);
      run.destroyed = true;
      if (started && !completed && W().abandoned) { if (cb_live) { cb_live = false; cb.destruct(); } W().remove_pending(this); }
      else if (started && !completed) {
        SR_FAIL("C02", "child_op_destroyed_before_completion", "operation state of leaf%d#%d was destroyed after start() but before it completed", id, inst);
        if (cb_live) { cb_live = false; cb.destruct(); }
        W().remove_pending(this);
      }
      SR_TR("leaf%d#%d destroyed", id, inst);
    }

    void start() noexcept {
      World& w = W();
      if (started) { SR_FAIL("C01", "leaf_started_twice", "an operation state of leaf%d was started twice", id); return; }
      inst = w.new_inst(id);
      auto& run = w.run(id, inst);
      run.connected = true;
      run.started = started = true; run.t_start = w.tick(); run.start_ctx = w.current_ctx;
      const LeafSpec& sp = w.spec[(size_t)id];
      const LeafSpec::Attempt at = sp.at(inst);
      // receiver-query snapshot (C12)
      {
        auto tok = unifex::get_stop_token(r);
        run.tok_stop_possible = tok.stop_possible();
        run.tok_stopped_at_start = tok.stop_requested();
        run.q_tag = static_cast<long>(verif_tag(r));
        if constexpr (std::is_invocable_v<unifex::tag_t<unifex::get_scheduler>, const R&>) {
          auto s = unifex::get_scheduler(r);
          if constexpr (std::is_same_v<decltype(s), HSched>) run.q_sched = s.ctx; else run.q_sched = -1;
        } else run.q_sched = -1;
        auto a = unifex::get_allocator(r);
        if constexpr (std::is_same_v<decltype(a), CountingAlloc<std::byte>>) run.q_alloc = a.l ? a.l->id : -1; else run.q_alloc = -1;
      }
#if UNIFEX_ENABLE_CONTINUATION_VISITATIONS
      if (w.root_type) {
        auto entries = unifex::async_trace(r);
        run.trace_len = (int)entries.size(); run.trace_root = 0;
        for (auto& en : entries) if (en.continuation.type() == unifex::type_index(*w.root_type)) run.trace_root = 1;
      }
#endif
      SR_TR("leaf%d#%d started on ctx%d (token stop_possible=%d stopped=%d)", id, inst, w.current_ctx, (int)run.tok_stop_possible, (int)run.tok_stopped_at_start);
      bool destroyed = false; destroyed_flag = &destroyed;
      cb_live = true;
      in_cb_construct = true;
      cb.construct(unifex::get_stop_token(r), StopFn{this});   // may call on_stop() inline (stop already requested)
      in_cb_construct = false;
      if (stop_during_construct) on_stop();
      if (destroyed) return;
      if (completed) { destroyed_flag = nullptr; return; }
      if (sp.stop_root_in_start && inst == 0 && w.request_root_stop) {
        SR_TR("leaf%d#%d requests stop on the root source from inside start()", id, inst);
        w.request_root_stop();
        if (destroyed) return;
        if (completed) { destroyed_flag = nullptr; return; }
      }
      destroyed_flag = nullptr;
      if (pending_done) return;  // a stop already turned this attempt into a deferred done
      if (at.timing == 0) { complete(at.chan, at.errkind); }
      else if (at.timing == 1) {
        pending_natural = true;
        w.pending.push_back(PendingEvent{id, inst, 0, this, [](void* p, int k) { static_cast<Op*>(p)->fire(k); }});
      }
      // timing 2: completes only in reaction to stop
    }

    void on_stop() noexcept {
      if (in_cb_construct) { stop_during_construct = true; return; }  // handled right after the constructor returns
      World& w = W();
      auto& run = w.run(id, inst);
      if (run.stop_seen) return;
      run.stop_seen = true; run.t_stop = w.tick();
      SR_TR("leaf%d#%d observes stop", id, inst);
      if (completed) return;
      const LeafSpec& sp = w.spec[(size_t)id];
      if (sp.on_stop == 1) { w.remove_pending(this); pending_natural = false; complete(DONE, 0); }
      else if (sp.on_stop == 2) {
        if (!pending_done) {
          w.remove_pending(this); pending_natural = false; pending_done = true;
          w.pending.push_back(PendingEvent{id, inst, 1, this, [](void* p, int k) { static_cast<Op*>(p)->fire(k); }});
        }
      }
    }

    void fire(int kind) noexcept {
      World& w = W();
      const LeafSpec::Attempt at = w.spec[(size_t)id].at(inst);
      int prev = w.current_ctx; w.current_ctx = at.ctx;
      if (kind == 1) complete(DONE, 0); else complete(at.chan, at.errkind);
      w.current_ctx = prev;
    }

    void complete(int chan, int errkind) noexcept {
      World& w = W();
      auto& run = w.run(id, inst);
      if (completed) { SR_FAIL("*", "harness_leaf_double_complete", "harness bug: leaf%d#%d completed twice", id, inst); return; }
      completed = run.completed = true; run.chan = chan; run.t_complete = w.tick();
      int L = id, I = inst;
      if (cb_live) { cb_live = false; cb.destruct(); }
      SR_TR("leaf%d#%d completes with %s on ctx%d", L, I, chan_name(chan), w.current_ctx);
      if (chan == VALUE) {
        if constexpr (std::is_void_v<Value>) unifex::set_value(std::move(r));
        else if ((L + I) % 2 == 0 && W().values_in_op_state) {
          slot.construct(mix(100 + (uint64_t)L, (uint64_t)I)); slot_live = true;
          UNIFEX_TRY { unifex::set_value(std::move(r), std::move(slot.get())); }
          UNIFEX_CATCH(...) { unifex::set_error(std::move(r), std::current_exception()); }
        }
        else {
          UNIFEX_TRY { unifex::set_value(std::move(r), Value(mix(100 + (uint64_t)L, (uint64_t)I))); }
          UNIFEX_CATCH(...) { unifex::set_error(std::move(r), std::current_exception()); }
        }
      } else if (chan == ERROR) {
        (void)errkind;
        if ((L + I) % 2 == 0 && W().values_in_op_state) {
          eslot.construct(std::make_exception_ptr(LeafFailure{L, I})); eslot_live = true;
          unifex::set_error(std::move(r), std::move(eslot.get()));
        } else
        unifex::set_error(std::move(r), std::make_exception_ptr(LeafFailure{L, I}));
      } else {
        if constexpr (SendsDone) unifex::set_done(std::move(r));
        else unifex::set_error(std::move(r), std::make_exception_ptr(LeafFailure{L, I}));
      }
    }
  };

  // connecting an rvalue sender consumes it (as just(x) moves its value out): the sender is left moved-from
  template <class L, class R, std::enable_if_t<std::is_same_v<unifex::remove_cvref_t<L>, Leaf>, int> = 0>
  friend Op<unifex::remove_cvref_t<R>> tag_invoke(unifex::tag_t<unifex::connect>, L&& l, R&& r) {
    W().throw_point("leaf connect");
    int id = l.id;
    if constexpr (!std::is_lvalue_reference_v<L> && !std::is_const_v<std::remove_reference_t<L>>) l.id = -7;
    if (id < 0) { SR_FAIL("C05", "moved_from_sender_connected", "a harness leaf sender that had already been consumed (moved from, or connected as an rvalue) was connected again: an adaptor treated a sender it was connected through as an lvalue as if it were an rvalue"); id = 0; }
    return Op<unifex::remove_cvref_t<R>>{id, (R &&) r};
  }
};

}  // namespace sr
