// Driver shared by every harness binary.
//
//   harness --out DIR --seed N [--cases N] [--secs T] [--max-size S] [--prop Cxx] [--k=v ...]
//       generate cases with rapidcheck (vector<uint8_t> -> vk_run_case), shrink the
//       first failure, write DIR/stats.json (+ nt_hashes.bin, fail.bin, fail.json)
//       exit 0 = all cases passed, 3 = violation found (shrunk input in fail.bin),
//       anything else = crash (DIR/current_case.bin holds the input that was running)
//   harness --replay FILE [--prop Cxx] [--k=v ...]
//       run exactly one case from a raw byte file with tracing on; exit 0 / 3 / crash
//
// With -DVK_LIBFUZZER the same vk_run_case is exposed as LLVMFuzzerTestOneInput.
#include "kit/case.hpp"

#if __has_include(<unifex/config.hpp>)
#include <unifex/config.hpp>
#if !UNIFEX_NO_ASYNC_STACKS
#include <unifex/tracing/async_stack.hpp>
#define VK_ASYNC_STACKS 1
#endif
#endif

#include <rapidcheck.h>

#include <algorithm>
#include <chrono>
#include <csignal>
#include <cstdlib>
#include <cstring>
#include <fcntl.h>
#include <sched.h>
#include <unistd.h>
#include <unordered_set>
#include <unordered_map>

extern "C" void __sanitizer_set_death_callback(void (*)(void)) __attribute__((weak));
extern "C" int __lsan_do_recoverable_leak_check() __attribute__((weak));

namespace vk {

static Ctx g_ctx;
Ctx& ctx() { return g_ctx; }

std::string sfmt(const char* fmt, ...) {
  char buf[2048];
  va_list ap; va_start(ap, fmt);
  vsnprintf(buf, sizeof buf, fmt, ap);
  va_end(ap);
  return buf;
}

static void append_file(const std::string& path, const std::string& s) {
  int fd = ::open(path.c_str(), O_WRONLY | O_CREAT | O_APPEND, 0644);
  if (fd >= 0) { (void)!::write(fd, s.data(), s.size()); ::close(fd); }
}

void Ctx::fail(const char* prop_tag, const char* sig, const char* fmt, ...) {
  char buf[2048];
  va_list ap; va_start(ap, fmt);
  vsnprintf(buf, sizeof buf, fmt, ap);
  va_end(ap);
  if (tracing && trace.size() < 400) {
    trace.push_back(std::string("VIOLATION[") + prop_tag + "/" + sig + "] " + buf);
    if (live_trace) { fprintf(stdout, "  > %s\n", trace.back().c_str()); fflush(stdout); }
  }
  if (failed) return;
  failed = true; fail_prop = prop_tag; fail_sig = sig; fail_msg = buf;
  append_file(workdir + "/violation.txt", std::string(prop_tag) + "\t" + sig + "\t" + buf + "\n");
}

void Ctx::tr(const char* fmt, ...) {
  if (!tracing) return;
  char buf[1024];
  va_list ap; va_start(ap, fmt);
  vsnprintf(buf, sizeof buf, fmt, ap);
  va_end(ap);
  trace.emplace_back(buf);
  if (live_trace) { fprintf(stdout, "  > %s\n", buf); fflush(stdout); }
}

}  // namespace vk

__attribute__((weak)) void vk_harness_init() {}
__attribute__((weak)) const char* vk_nontrivial_rule() { return "(harness did not state a rule)"; }

bool g_replay_mode_flag();
namespace {

using Bytes = std::vector<uint8_t>;
using Clock = std::chrono::steady_clock;

struct Sample { std::string bytes_hex, desc; bool nontrivial; std::vector<std::string> trace; };

struct Stats {
  uint64_t evaluations = 0, nontrivial = 0, discarded = 0, foreign = 0;
  std::unordered_set<uint64_t> nt_hashes;
  std::map<std::string, uint64_t> labels;
  std::vector<Sample> samples;
  std::map<std::string, uint64_t> discard_reasons;
  std::map<std::string, uint64_t> foreign_sigs;
  double wall = 0;
  int status = 0;
  std::string fail_sig, fail_msg, fail_prop, fail_desc;
} g_stats;

std::string g_out = ".";
int g_curfd = -1;
Clock::time_point g_t0;
bool g_after_failure = false;
long g_leak_every = 0;   // run LeakSanitizer's recoverable check after every N-th case (0: only at exit)
long g_case_no = 0;
Bytes g_last_fail;
std::string g_last_fail_sig, g_last_fail_msg, g_last_fail_prop, g_last_fail_desc;

std::string hex(const Bytes& b) {
  static const char* d = "0123456789abcdef";
  std::string s; s.reserve(b.size() * 2);
  for (uint8_t c : b) { s.push_back(d[c >> 4]); s.push_back(d[c & 15]); }
  return s;
}

std::string jstr(const std::string& s) {
  std::string o = "\"";
  for (unsigned char c : s) {
    if (c == '"' || c == '\\') { o.push_back('\\'); o.push_back((char)c); }
    else if (c == '\n') o += "\\n";
    else if (c == '\t') o += "\\t";
    else if (c < 0x20 || c >= 0x7f) { char b[8]; snprintf(b, sizeof b, "\\u%04x", c); o += b; }
    else o.push_back((char)c);
  }
  return o + "\"";
}

void write_file(const std::string& path, const void* p, size_t n) {
  int fd = ::open(path.c_str(), O_WRONLY | O_CREAT | O_TRUNC, 0644);
  if (fd < 0) return;
  size_t off = 0;
  while (off < n) { ssize_t w = ::write(fd, (const char*)p + off, n - off); if (w <= 0) break; off += (size_t)w; }
  ::close(fd);
}

template <class M>
std::string jmap(const M& m) {
  std::string s = "{"; bool first = true;
  for (auto& kv : m) { if (!first) s += ","; first = false; s += jstr(kv.first) + ":" + std::to_string(kv.second); }
  return s + "}";
}

void flush_stats() {
  Stats& s = g_stats;
  s.wall = std::chrono::duration<double>(Clock::now() - g_t0).count();
  std::string j = "{";
  j += "\"harness\":" + jstr(vk_harness_name());
  j += ",\"prop\":" + jstr(vk::ctx().prop);
  j += ",\"status\":" + std::to_string(s.status);
  j += ",\"evaluations\":" + std::to_string(s.evaluations);
  j += ",\"nontrivial\":" + std::to_string(s.nontrivial);
  j += ",\"distinct_nontrivial\":" + std::to_string(s.nt_hashes.size());
  j += ",\"discarded\":" + std::to_string(s.discarded);
  j += ",\"foreign\":" + std::to_string(s.foreign);
  j += ",\"wall_s\":" + std::to_string(s.wall);
  j += ",\"rule\":" + jstr(vk_nontrivial_rule());
  j += ",\"labels\":" + jmap(s.labels);
  j += ",\"discard_reasons\":" + jmap(s.discard_reasons);
  j += ",\"foreign_sigs\":" + jmap(s.foreign_sigs);
  j += ",\"samples\":[";
  for (size_t i = 0; i < s.samples.size(); ++i) {
    auto& sm = s.samples[i];
    if (i) j += ",";
    j += "{\"bytes\":" + jstr(sm.bytes_hex) + ",\"nontrivial\":" + (sm.nontrivial ? "true" : "false") +
         ",\"case\":" + jstr(sm.desc) + ",\"trace\":[";
    for (size_t k = 0; k < sm.trace.size() && k < 60; ++k) { if (k) j += ","; j += jstr(sm.trace[k]); }
    j += "]}";
  }
  j += "]";
  if (s.status != 0) {
    j += ",\"fail_sig\":" + jstr(s.fail_sig) + ",\"fail_msg\":" + jstr(s.fail_msg) +
         ",\"fail_prop\":" + jstr(s.fail_prop) + ",\"fail_case\":" + jstr(s.fail_desc);
  }
  j += "}\n";
  write_file(g_out + "/stats.json", j.data(), j.size());
  std::vector<uint64_t> hs(s.nt_hashes.begin(), s.nt_hashes.end());
  write_file(g_out + "/nt_hashes.bin", hs.data(), hs.size() * sizeof(uint64_t));
}

void on_death() {
  static bool once = false;
  if (once) return;
  once = true;
  if (g_stats.status == 0) g_stats.status = 5;
  flush_stats();
}

void on_signal(int sig) {
  on_death();
  signal(sig, SIG_DFL);
  raise(sig);
}

// Runs one case.  Returns true when the case passed (or was discarded).
// ---- C20: configuration differential.  --digest-out=FILE appends "hex(bytes)<TAB>digest" per case; --expect-digests=FILE loads
// such a table written by the reference configuration (same seed => same generated bytes) and turns a differing digest into a
// violation; for bytes that are not in the table (minimisation, replay) the reference binary named by --ref-binary is run on them.
static std::unordered_map<std::string, std::string> g_expect; static bool g_expect_loaded = false; static FILE* g_digest_out = nullptr;
static uint64_t g_compared = 0;
static void load_expect(const std::string& path) {
  g_expect_loaded = true;
  FILE* f = fopen(path.c_str(), "r"); if (!f) return;
  char* line = nullptr; size_t cap = 0; ssize_t n;
  while ((n = getline(&line, &cap, f)) > 0) { std::string l(line, (size_t)n); while (!l.empty() && (l.back() == '\n' || l.back() == '\r')) l.pop_back(); auto t = l.find('\t'); if (t != std::string::npos) g_expect[l.substr(0, t)] = l.substr(t + 1); }
  free(line); fclose(f);
}
static bool ref_digest_by_spawn(const Bytes& b, std::string& out) {
  vk::Ctx& cx = vk::ctx();
  std::string bin = cx.arg("ref-binary"); if (bin.empty()) return false;
  std::string tmp = cx.workdir + "/ref_case_" + std::to_string((long)getpid()) + ".bin";
  write_file(tmp, b.data(), b.size());
  std::string cmd = "ASAN_OPTIONS=detect_leaks=0 " + bin + " --prop " + (cx.prop.empty() ? std::string("C20") : cx.prop) + " --print-digest=1 --out " + cx.workdir;
  for (auto& kv : cx.args) if (kv.first.rfind("ref-", 0) != 0 && kv.first != "expect-digests" && kv.first != "digest-out" && kv.first != "print-digest") cmd += " '--" + kv.first + "=" + kv.second + "'";
  cmd += " --replay " + tmp + " 2>/dev/null";
  FILE* p = popen(cmd.c_str(), "r"); if (!p) return false;
  char buf[8192]; bool got = false;
  while (fgets(buf, sizeof buf, p)) { if (strncmp(buf, "digest: ", 8) == 0) { out = buf + 8; while (!out.empty() && out.back() == '\n') out.pop_back(); got = true; } }
  pclose(p); unlink(tmp.c_str());
  return got;
}
static void differential(const Bytes& b) {
  vk::Ctx& cx = vk::ctx();
  if (cx.failed || cx.discard) return;
  if (g_digest_out) { fprintf(g_digest_out, "%s\t%s\n", hex(b).c_str(), cx.digest.c_str()); }
  if (!g_expect_loaded && cx.arg("ref-binary").empty()) return;
  std::string want; bool have = false;
  auto it = g_expect.find(hex(b));
  if (it != g_expect.end()) { want = it->second; have = true; }
  else if (g_replay_mode_flag()) have = ref_digest_by_spawn(b, want);
  if (!have) return;
  g_compared++; cx.label("compared-with-reference-configuration");
  if (want != cx.digest) {
    size_t i = 0; while (i < want.size() && i < cx.digest.size() && want[i] == cx.digest[i]) ++i;
    size_t from = i > 40 ? i - 40 : 0;
    cx.fail("C20", "config_differential", "observable behaviour differs from the reference configuration (%s) at digest offset %zu: here [...%s] reference [...%s]", cx.arg("ref-name", "?").c_str(), i, cx.digest.substr(from, 160).c_str(), want.substr(from, 160).c_str());
  }
}

bool run_one(const Bytes& b, bool count) {
  vk::Ctx& cx = vk::ctx();
  cx.reset_case();
  if (g_curfd >= 0) {
    (void)!::pwrite(g_curfd, b.data(), b.size(), 0);
    (void)!::ftruncate(g_curfd, (off_t)b.size());
  }
  vk::Choice c(b.data(), b.size());
  vk_run_case(c);
#ifdef VK_ASYNC_STACKS
  // C20: with tracing on, every async stack root an operation installed on this thread has been removed again once the case is over
  if (!cx.failed && unifex::tryGetCurrentAsyncStackRoot() != nullptr)
    cx.fail("C20", "async_stack_root_leaked", "after the case has completed and all of its operations have been destroyed, the driver thread still has a current AsyncStackRoot");
#endif
  differential(b);
  if (g_leak_every > 0 && (++g_case_no % g_leak_every) == 0 && __lsan_do_recoverable_leak_check && !cx.failed) {
    if (__lsan_do_recoverable_leak_check() != 0)
      cx.fail("C02", "heap_leak", "LeakSanitizer: heap memory allocated during this case%s was never freed", g_leak_every > 1 ? " (or one of the few before it)" : "");
  }
  bool failed = cx.failed;
  // --retag=1: this unit is run on a sub-domain in which every oracle bears on the property being checked (e.g. C18: shapes with a type-erasing wrapper)
  if (failed && !cx.prop.empty() && cx.fail_prop != cx.prop && cx.fail_prop != "*" && cx.argi("retag", 0) == 0) {
    // a violation of an oracle that belongs to another property's check:
    // counted and reported in the evidence, but not this check's verdict.
    if (count) { g_stats.foreign++; g_stats.foreign_sigs[cx.fail_prop + "/" + cx.fail_sig]++; }
    failed = false;
  }
  if (count && !g_after_failure) {
    Stats& s = g_stats;
    s.evaluations++;
    if (cx.discard) { s.discarded++; s.discard_reasons[cx.discard_why]++; }
    else {
      for (auto& l : cx.labels) s.labels[l]++;
      if (cx.nontrivial) {
        s.nontrivial++;
        if (s.nt_hashes.size() < 4000000) s.nt_hashes.insert(c.h);
      }
      size_t nts = 0; for (auto& sm : s.samples) nts += sm.nontrivial;
      if ((cx.nontrivial && nts < 4) || (!cx.nontrivial && s.samples.size() - nts < 1)) {
        s.samples.push_back(Sample{hex(b), cx.desc, cx.nontrivial, {}});
      }
    }
  }
  if (failed) {
    g_last_fail = b; g_last_fail_sig = cx.fail_sig; g_last_fail_msg = cx.fail_msg;
    g_last_fail_prop = cx.fail_prop; g_last_fail_desc = cx.desc;
  }
  return !failed;
}

void capture_sample_traces() {
  vk::Ctx& cx = vk::ctx();
  cx.tracing = true;
  for (auto& sm : g_stats.samples) {
    Bytes b;
    for (size_t i = 0; i + 1 < sm.bytes_hex.size(); i += 2)
      b.push_back((uint8_t)strtol(sm.bytes_hex.substr(i, 2).c_str(), nullptr, 16));
    cx.reset_case();
    vk::Choice c(b.data(), b.size());
    vk_run_case(c);
    sm.trace = cx.trace;
  }
  cx.tracing = false;
}

Bytes read_bytes(const char* path) {
  Bytes b;
  FILE* f = fopen(path, "rb");
  if (!f) { fprintf(stderr, "cannot open %s\n", path); exit(2); }
  uint8_t buf[4096]; size_t n;
  while ((n = fread(buf, 1, sizeof buf, f)) > 0) b.insert(b.end(), buf, buf + n);
  fclose(f);
  return b;
}

}  // namespace

static bool g_replay_mode = false;
bool g_replay_mode_flag() { return g_replay_mode; }

static void print_replay_report(bool ok) {
  vk::Ctx& cx = vk::ctx();
  printf("harness: %s\nprop: %s\ncase: %s\n", vk_harness_name(), cx.prop.c_str(), cx.desc.c_str());
  for (auto& l : cx.trace) printf("  | %s\n", l.c_str());
  if (cx.discard) printf("discarded: %s\n", cx.discard_why.c_str());
  if (cx.argi("print-digest", 0)) printf("digest: %s\n", cx.digest.c_str());
  if (cx.failed) printf("violation: %s/%s: %s\n", cx.fail_prop.c_str(), cx.fail_sig.c_str(), cx.fail_msg.c_str());
  printf("result: %s\n", ok ? "pass" : "FAIL");
  fflush(stdout);
}

namespace vk {
// A violation has been recorded and the case cannot be continued safely
// (unbounded loop, corrupted state, deadlocked threads): report and leave.
[[noreturn]] void fatal_exit() {
  if (g_replay_mode) print_replay_report(false);
  on_death();
  _exit(4);
}
}  // namespace vk

namespace vk {
[[noreturn]] void excluded_exit(const char* why) {
  vk::Ctx& cx = vk::ctx();
  if (g_replay_mode) { cx.discard = true; cx.discard_why = why; print_replay_report(true); fflush(stdout); _exit(0); }
  g_stats.discarded++;
  g_stats.discard_reasons[why]++;
  g_stats.status = 0;
  flush_stats();
  fprintf(stderr, "excluded (%s): the process cannot continue, exit 77\n", why);
  _exit(77);
}
}  // namespace vk

extern "C" void vk_unifex_assert_fail(const char* expr, const char* file, int line) noexcept {
  const char* base = strrchr(file, '/');
  base = base ? base + 1 : file;
  vk::ctx().fail("*", (std::string("unifex_assert:") + base + ":" + expr).c_str(),
                 "UNIFEX_ASSERT(%s) failed at %s:%d", expr, file, line);
  fprintf(stderr, "UNIFEX_ASSERT(%s) failed at %s:%d\n", expr, file, line);
  vk::fatal_exit();
}

#ifdef VK_LIBFUZZER
extern "C" int LLVMFuzzerInitialize(int*, char***) {
  const char* o = getenv("VK_OUT"); if (o) { g_out = o; vk::ctx().workdir = o; }
  const char* p = getenv("VK_PROP"); if (p) vk::ctx().prop = p;
  g_t0 = Clock::now();
  vk_harness_init();
  return 0;
}
extern "C" int LLVMFuzzerTestOneInput(const uint8_t* data, size_t size) {
  Bytes b(data, data + size);
  if (!run_one(b, true)) {
    fprintf(stderr, "VK-VIOLATION %s/%s: %s\n  case: %s\n", g_last_fail_prop.c_str(), g_last_fail_sig.c_str(),
            g_last_fail_msg.c_str(), g_last_fail_desc.c_str());
    g_stats.status = 3; g_stats.fail_sig = g_last_fail_sig; g_stats.fail_msg = g_last_fail_msg;
    g_stats.fail_prop = g_last_fail_prop; g_stats.fail_desc = g_last_fail_desc;
    flush_stats();
    __builtin_trap();
  }
  if ((g_stats.evaluations & 0xffff) == 0) flush_stats();
  return 0;
}
#else
int main(int argc, char** argv) {
  uint64_t seed = 1; long cases = 1000; double secs = 1e9; int max_size = 100; int chunk = 0;
  const char* replay = nullptr; bool trace_flag = false; int cpu = -1;
  vk::Ctx& cx = vk::ctx();
  for (int i = 1; i < argc; ++i) {
    std::string a = argv[i];
    auto next = [&]() -> const char* { if (i + 1 >= argc) { fprintf(stderr, "missing value for %s\n", a.c_str()); exit(2); } return argv[++i]; };
    if (a == "--seed") seed = strtoull(next(), nullptr, 10);
    else if (a == "--cases") cases = atol(next());
    else if (a == "--secs") secs = atof(next());
    else if (a == "--max-size") max_size = atoi(next());
    else if (a == "--chunk") chunk = atoi(next());
    else if (a == "--out") g_out = next();
    else if (a == "--prop") cx.prop = next();
    else if (a == "--replay") replay = next();
    else if (a == "--trace") trace_flag = true;
    else if (a == "--cpu") cpu = atoi(next());
    else if (a == "--leak-check-every") g_leak_every = atol(next());
    else if (a.rfind("--", 0) == 0 && a.find('=') != std::string::npos) {
      auto eq = a.find('='); cx.args[a.substr(2, eq - 2)] = a.substr(eq + 1);
    } else { fprintf(stderr, "unknown argument %s\n", a.c_str()); return 2; }
  }
  if (cpu >= 0) { cpu_set_t set; CPU_ZERO(&set); CPU_SET(cpu, &set); sched_setaffinity(0, sizeof set, &set); }
  cx.workdir = g_out;
  g_t0 = Clock::now();
  if (__sanitizer_set_death_callback) __sanitizer_set_death_callback(on_death);
  signal(SIGABRT, on_signal);
  signal(SIGPIPE, SIG_IGN);
  vk_harness_init();
  if (!cx.arg("digest-out").empty()) g_digest_out = fopen(cx.arg("digest-out").c_str(), "a");
  if (!cx.arg("expect-digests").empty()) load_expect(cx.arg("expect-digests"));

  if (replay) {
    Bytes b = read_bytes(replay);
    cx.tracing = true;
    g_curfd = -1;
    g_replay_mode = true;
    g_leak_every = 1;
    cx.live_trace = getenv("VK_LIVE_TRACE") != nullptr;
    bool ok = run_one(b, false);
    print_replay_report(ok);
    return ok ? 0 : 3;
  }

  std::string cur = g_out + "/current_case.bin";
  g_curfd = ::open(cur.c_str(), O_RDWR | O_CREAT | O_TRUNC, 0644);
  unlink((g_out + "/violation.txt").c_str());

  if (chunk <= 0) chunk = (int)std::min<long>(std::max<long>(cases / 8, 50), 2000);
  auto byteGen = rc::gen::weightedOneOf<uint8_t>(
      {{3, rc::gen::resize(100, rc::gen::arbitrary<uint8_t>())}, {1, rc::gen::arbitrary<uint8_t>()}});
  auto bytesGen = rc::gen::container<Bytes>(byteGen);
  bool all_ok = true;
  uint64_t chunk_idx = 0;
  while ((long)g_stats.evaluations < cases) {
    double el = std::chrono::duration<double>(Clock::now() - g_t0).count();
    if (el >= secs) break;
    rc::detail::TestParams params;
    params.seed = seed * 1000003ull + chunk_idx++;
    params.maxSuccess = (int)std::min<long>(chunk, cases - (long)g_stats.evaluations);
    params.maxSize = max_size;
    rc::detail::TestMetadata md; md.id = vk_harness_name(); md.description = md.id;
    auto deadline = g_t0 + std::chrono::duration_cast<Clock::duration>(std::chrono::duration<double>(secs));
    auto result = rc::detail::checkTestable(
        [&] {
          const Bytes b = *bytesGen;
          // a time budget ends the run as "explored N cases", never as a failure
          if (!g_after_failure && Clock::now() > deadline) return;
          if (!run_one(b, true)) { g_after_failure = true; RC_FAIL(g_last_fail_msg); }
        },
        md, params);
    if (result.is<rc::detail::FailureResult>()) { all_ok = false; break; }
    if (result.is<rc::detail::Error>()) {
      fprintf(stderr, "rapidcheck error: %s\n", result.get<rc::detail::Error>().description.c_str());
      g_stats.status = 6; flush_stats(); return 6;
    }
  }
  if (!all_ok) {
    g_stats.status = 3;
    g_stats.fail_sig = g_last_fail_sig; g_stats.fail_msg = g_last_fail_msg;
    g_stats.fail_prop = g_last_fail_prop; g_stats.fail_desc = g_last_fail_desc;
    write_file(g_out + "/fail.bin", g_last_fail.data(), g_last_fail.size());
    flush_stats();
    fprintf(stderr, "violation %s/%s: %s\n  case: %s\n", g_last_fail_prop.c_str(), g_last_fail_sig.c_str(),
            g_last_fail_msg.c_str(), g_last_fail_desc.c_str());
    return 3;
  }
  g_curfd = -1;
  if (g_digest_out) { fclose(g_digest_out); g_digest_out = nullptr; }
  capture_sample_traces();
  flush_stats();
  return 0;
}
#endif
