// Helpers for harnesses that run under detsched (schedule-controlled threads).
// Only one thread of a case runs at a time, so plain variables are enough for
// harness bookkeeping; a global logical clock orders harness-visible events.
#pragma once
#include "detsched/api.hpp"
#include "kit/case.hpp"

#include <unifex/get_stop_token.hpp>
#include <unifex/inline_scheduler.hpp>
#include <unifex/inplace_stop_token.hpp>
#include <unifex/receiver_concepts.hpp>
#include <unifex/scheduler_concepts.hpp>
#include <unifex/sender_concepts.hpp>

#include <deque>
#include <exception>
#include <memory>
#include <string>
#include <vector>

namespace dk {

inline long& clock_ref() { static long c = 0; return c; }
inline long tick() { return ++clock_ref(); }

// wait (cooperatively) until a harness flag becomes true
template <class Pred>
inline void wait_for(Pred p) {
  while (!p()) detsched::yield_now();
}

enum Chan : int { NONE = -1, VALUE = 0, ERROR = 1, DONE = 2 };
inline const char* chan_name(int c) { return c == VALUE ? "value" : c == ERROR ? "error" : c == DONE ? "done" : "none"; }

// What a receiver observed.
struct Slot {
  int signals = 0; int chan = NONE; long t = -1; int thread = -1; int ctx = -1;
  long t_start_begin = -1, t_start_end = -1;
  std::string name;
  bool completed() const { return signals > 0; }
};

// Logical context executing on a detsched thread: a FIFO of items, run by a worker thread the harness creates.
struct DCtx;
inline int& current_ctx() { static thread_local int c = -1; return c; }

struct DCtx {
  int id = 0;
  struct Item { Item* next = nullptr; void (*run)(Item*) noexcept = nullptr; };
  std::deque<Item*> q;
  bool stop = false;
  long executed = 0;
  void push(Item* i) { q.push_back(i); detsched::step(); }
  // body of the worker thread
  void run() {
    int prev = current_ctx(); current_ctx() = id;
    for (;;) {
      while (q.empty() && !stop) detsched::yield_now();
      if (q.empty() && stop) break;
      Item* i = q.front(); q.pop_front();
      executed++;
      i->run(i);
    }
    current_ctx() = prev;
  }
  void request_stop() { stop = true; detsched::step(); }

  struct scheduler {
    DCtx* c;
    struct sender {
      DCtx* c;
      template <template <class...> class V, template <class...> class T> using value_types = V<T<>>;
      template <template <class...> class V> using error_types = V<>;
      static constexpr bool sends_done = true;
      static constexpr unifex::blocking_kind blocking = unifex::blocking_kind::never;
      static constexpr bool is_always_scheduler_affine = false;
      template <class R> struct op : Item {
        DCtx* c; R r;
        op(DCtx* cc, R&& rr) : c(cc), r((R &&) rr) {
          this->run = [](Item* i) noexcept {
            auto* self = static_cast<op*>(i);
            if (unifex::get_stop_token(self->r).stop_requested()) unifex::set_done(std::move(self->r));
            else unifex::set_value(std::move(self->r));
          };
        }
        void start() noexcept { c->push(this); }
      };
      template <class R> friend op<unifex::remove_cvref_t<R>> tag_invoke(unifex::tag_t<unifex::connect>, sender s, R&& r) { return op<unifex::remove_cvref_t<R>>{s.c, (R &&) r}; }
    };
    sender schedule() const noexcept { return sender{c}; }
    friend bool operator==(scheduler a, scheduler b) noexcept { return a.c == b.c; }
    friend bool operator!=(scheduler a, scheduler b) noexcept { return a.c != b.c; }
  };
  scheduler get_scheduler() { return scheduler{this}; }
};

// Receiver used by the detsched harnesses.  Sched is unifex::inline_scheduler or DCtx::scheduler.
template <class Sched, bool Stoppable = true>
struct Recv {
  Slot* s; Sched sched; unifex::inplace_stop_source* src;
  void signal(int chan) noexcept {
    s->signals++;
    if (s->signals > 1) vk::ctx().fail("C01", "double_completion", "receiver '%s' completed %d times (second: %s)", s->name.c_str(), s->signals, chan_name(chan));
    if (s->signals == 1) { s->chan = chan; s->t = tick(); s->thread = detsched::current_thread(); s->ctx = current_ctx(); }
    detsched::step();
  }
  template <class... V> void set_value(V&&...) && noexcept { signal(VALUE); }
  template <class E> void set_error(E&&) && noexcept { signal(ERROR); }
  void set_done() && noexcept { signal(DONE); }
  friend auto tag_invoke(unifex::tag_t<unifex::get_stop_token>, const Recv& r) noexcept {
    if constexpr (Stoppable) return r.src ? r.src->get_token() : unifex::inplace_stop_token{};
    else return unifex::unstoppable_token{};
  }
  friend Sched tag_invoke(unifex::tag_t<unifex::get_scheduler>, const Recv& r) noexcept { return r.sched; }
};

inline bool known(const char* sig) {
  std::string k = "," + vk::ctx().arg("known") + ",";
  return k.find(std::string(",") + sig + ",") != std::string::npos;
}
// KNOWN FINDING intrusive_list_node_touched_after_pop: atomic_intrusive_list::push_back/try_remove may still
// read (and CAS on) the link word inside a node that another thread has just popped and whose owner has already
// completed and destroyed it.  Excluded by construction: operation-state memory is kept allocated until the end
// of the case (type-stable storage), although the object itself is destroyed as soon as it completes.
struct Graveyard { std::vector<std::pair<void*, std::align_val_t>> blocks; long parked = 0; };
inline Graveyard& graveyard() { static Graveyard g; return g; }
inline void free_graveyard() { for (auto& b : graveyard().blocks) ::operator delete(b.first, b.second); graveyard().blocks.clear(); }

// Holds an operation state on the heap with exact size (ASan sees any touch after destruction).
template <class Op>
struct OpBox {
  void* mem = nullptr; Op* op = nullptr;
  template <class S, class R> void emplace(S&& s, R&& r) {
    mem = ::operator new(sizeof(Op), std::align_val_t(alignof(Op)));
    op = ::new (mem) Op(unifex::connect((S &&) s, (R &&) r));
  }
  void reset() {
    if (!op) return;
    op->~Op();
    if (known("intrusive_list_node_touched_after_pop")) { graveyard().blocks.emplace_back(mem, std::align_val_t(alignof(Op))); graveyard().parked++; }
    else ::operator delete(mem, std::align_val_t(alignof(Op)));
    op = nullptr; mem = nullptr;
  }
  ~OpBox() { reset(); }
};

}  // namespace dk
