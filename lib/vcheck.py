"""Engine behind bin/check: builds harnesses from /repo's working tree with
ninja, runs them in shards, minimises failures, writes evidence and replays.

Nothing here decides a property; the oracles live in the C++ harnesses.  This
module only orchestrates: build -> regression replays -> generated search ->
(on failure) reproduce x3, minimise, write replay -> evidence."""
import fcntl, glob, hashlib, json, os, random, shutil, struct, subprocess, sys, time

VERIF = os.path.dirname(os.path.dirname(os.path.abspath(__file__)))
REPO = os.environ.get("VERIF_REPO", "/repo")
BUILD = os.environ.get("VERIF_BUILD", os.path.join(VERIF, "_build"))
NCPU = os.cpu_count() or 4

# ----------------------------------------------------------------------------
# build configurations
# ----------------------------------------------------------------------------
COMMON = ("-fno-omit-frame-pointer -g1 -w -I{repo}/include -I{verif} "
          "-include {verif}/kit/prelude.hpp -pthread")
CONFIGS = {
    # primary: C++17, asserts on (they join the oracle), async stacks off, ASan+UBSan
    # g++ is the compiler of the pinned build; clang-14's C++17 concept emulation also mis-compiles some
    # adaptor compositions (cached false receiver_of<> evaluations), which g++ and clang C++20 do not
    "p17": dict(cxx="g++", std="gnu++17", opt="-O1",
                flags="-fsanitize=address,undefined -fno-sanitize-recover=undefined -fno-sanitize=vptr "
                      "-UNDEBUG -DUNIFEX_NO_ASYNC_STACKS=1"),
    "c17": dict(cxx="clang++", std="gnu++17", opt="-O1",
                flags="-fsanitize=address,undefined -fno-sanitize-recover=undefined -fno-sanitize=vptr,function "
                      "-UNDEBUG -DUNIFEX_NO_ASYNC_STACKS=1"),
    "p20": dict(cxx="clang++", std="gnu++20", opt="-O1",
                flags="-fsanitize=address,undefined -fno-sanitize-recover=undefined -fno-sanitize=vptr,function "
                      "-UNDEBUG -DUNIFEX_NO_ASYNC_STACKS=1"),
    # C20 configuration matrix (the reference is p17 / p20)
    "r17": dict(cxx="g++", std="gnu++17", opt="-O1",      # release: NDEBUG, libunifex assertions compiled out, no async stacks (config.hpp default under NDEBUG)
                flags="-fsanitize=address,undefined -fno-sanitize-recover=undefined -fno-sanitize=vptr -DNDEBUG -DVK_KEEP_ASSERT=1"),
    "s17": dict(cxx="g++", std="gnu++17", opt="-O1",      # debug + async stack tracing on
                flags="-fsanitize=address,undefined -fno-sanitize-recover=undefined -fno-sanitize=vptr -UNDEBUG -DUNIFEX_NO_ASYNC_STACKS=0"),
    "v17": dict(cxx="g++", std="gnu++17", opt="-O1",      # continuation visitation on
                flags="-fsanitize=address,undefined -fno-sanitize-recover=undefined -fno-sanitize=vptr -UNDEBUG -DUNIFEX_NO_ASYNC_STACKS=1 -DUNIFEX_ENABLE_CONTINUATION_VISITATIONS=1"),
    "s20": dict(cxx="g++", std="gnu++20", opt="-O1",      # C++20 (coroutines) + async stack tracing on; g++: clang-14 cannot compile the traced coroutine code with ASan at -O1
                flags="-fsanitize=address,undefined -fno-sanitize-recover=undefined -fno-sanitize=vptr -UNDEBUG -DUNIFEX_NO_ASYNC_STACKS=0"),
    # schedule-controlled: everything compiled through the detsched shim
    "d17": dict(cxx="clang++", std="gnu++17", opt="-O1", shim=True,
                flags="-fsanitize=address -UNDEBUG -DUNIFEX_NO_ASYNC_STACKS=1"),
    "dg17": dict(cxx="g++", std="gnu++17", opt="-O1", shim=True,
                 flags="-fsanitize=address -UNDEBUG -DUNIFEX_NO_ASYNC_STACKS=1"),
    "d20": dict(cxx="clang++", std="gnu++20", opt="-O1", shim=True,
                flags="-fsanitize=address -UNDEBUG -DUNIFEX_NO_ASYNC_STACKS=1"),
}


def add_config(name, **kw):
    CONFIGS[name] = kw


def cfg_flags(cfg):
    c = CONFIGS[cfg]
    s = "-std=%s %s %s %s" % (c["std"], c.get("opt", "-O1"), c["flags"], COMMON.format(repo=REPO, verif=VERIF))
    if c.get("shim"):
        s += " -include %s/detsched/shim.hpp -DVK_DETSCHED=1" % VERIF
    return s


class Unit:
    """One harness binary run for a property."""

    def __init__(self, name, src, cfg="p17", extra_src=(), args=None, max_size=100,
                 quick=(20, 200000), thorough=(300, 5000000), shards=None, pin=False,
                 use_lib=True, weight=1.0, defs="", libfuzzer=False, no_rc=False):
        self.name, self.src, self.cfg = name, src, cfg
        self.extra_src = list(extra_src)
        self.args = dict(args or {})
        self.max_size = max_size
        self.quick, self.thorough = quick, thorough
        self.shards = shards
        self.pin = pin
        self.use_lib = use_lib
        self.defs = defs
        self.libfuzzer = libfuzzer

    @property
    def binary(self):
        return os.path.join(BUILD, self.cfg, "bin", self.name)


# ----------------------------------------------------------------------------
# ninja generation
# ----------------------------------------------------------------------------
def _esc(s):
    return s.replace("$", "$$").replace(":", "$:").replace(" ", "$ ")


def lib_sources():
    srcs = sorted(glob.glob(os.path.join(REPO, "source", "*.cpp")) +
                  glob.glob(os.path.join(REPO, "source", "linux", "*.cpp")))
    return srcs


def gen_ninja(units):
    os.makedirs(BUILD, exist_ok=True)
    out = ["ninja_required_version = 1.5", "builddir = %s" % BUILD, ""]
    out.append("rule cxx\n  command = $cxx $flags -MMD -MF $out.d -c $in -o $out\n  depfile = $out.d\n  deps = gcc\n  description = CXX $out\n")
    out.append("rule link\n  command = $cxx $flags $in -o $out $libs\n  description = LINK $out\n")
    seen_cfg = set()
    seen_bin = set()
    for u in units:
        cfg = u.cfg
        c = CONFIGS[cfg]
        flags = cfg_flags(cfg)
        d = os.path.join(BUILD, cfg)
        if cfg not in seen_cfg:
            seen_cfg.add(cfg)
            objs = []
            for s in lib_sources():
                o = os.path.join(d, "lib", os.path.relpath(s, os.path.join(REPO, "source")).replace("/", "_") + ".o")
                out.append("build %s: cxx %s\n  cxx = %s\n  flags = %s\n" % (_esc(o), _esc(s), c["cxx"], flags))
                objs.append(o)
            c["_libobjs"] = objs
            # kit main (rapidcheck driver) -- independent of /repo
            # the driver and the detsched runtime are compiled WITHOUT the shim macros
            rflags = flags.replace("-include %s/detsched/shim.hpp" % VERIF, "")
            mo = os.path.join(d, "kit", "main.o")
            out.append("build %s: cxx %s\n  cxx = %s\n  flags = %s\n" % (_esc(mo), _esc(os.path.join(VERIF, "kit/main.cpp")), c["cxx"], rflags))
            c["_main"] = mo
            mo2 = os.path.join(d, "kit", "main_fuzz.o")
            out.append("build %s: cxx %s\n  cxx = %s\n  flags = %s -DVK_LIBFUZZER=1\n" % (_esc(mo2), _esc(os.path.join(VERIF, "kit/main.cpp")), c["cxx"], rflags))
            c["_main_fuzz"] = mo2
            if c.get("shim"):
                ro = os.path.join(d, "kit", "detsched_runtime.o")
                out.append("build %s: cxx %s\n  cxx = %s\n  flags = %s\n" % (_esc(ro), _esc(os.path.join(VERIF, "detsched/runtime.cpp")), c["cxx"], rflags))
                c["_rt"] = ro
        if (cfg, u.name) in seen_bin:
            continue
        seen_bin.add((cfg, u.name))
        uobjs = []
        for s in [u.src] + u.extra_src:
            sp = s if os.path.isabs(s) else os.path.join(VERIF, s)
            o = os.path.join(d, "obj", u.name, os.path.basename(sp) + ".o")
            fl = flags + (" " + u.defs if u.defs else "")
            if u.libfuzzer:
                fl += " -fsanitize=fuzzer-no-link"
            out.append("build %s: cxx %s\n  cxx = %s\n  flags = %s\n" % (_esc(o), _esc(sp), c["cxx"], fl))
            uobjs.append(o)
        ins = uobjs + [c["_main_fuzz"] if u.libfuzzer else c["_main"]]
        if c.get("shim"):
            ins.append(c["_rt"])
        if u.use_lib:
            ins += c["_libobjs"]
        lflags = flags + (" -fsanitize=fuzzer" if u.libfuzzer else "")
        out.append("build %s: link %s\n  cxx = %s\n  flags = %s\n  libs = -lrapidcheck -lpthread\n" %
                   (_esc(u.binary), " ".join(_esc(i) for i in ins), c["cxx"], lflags))
    text = "\n".join(out) + "\n"
    path = os.path.join(BUILD, "build.ninja")
    old = None
    if os.path.exists(path):
        old = open(path).read()
    if old != text:
        with open(path + ".tmp", "w") as f:
            f.write(text)
        os.replace(path + ".tmp", path)
    return path


def build(units, all_units, log):
    """Build (incrementally, from the current /repo tree) what `units` need."""
    os.makedirs(BUILD, exist_ok=True)
    with open(os.path.join(BUILD, ".lock"), "w") as lk:
        fcntl.flock(lk, fcntl.LOCK_EX)
        t0 = time.time()
        gen_ninja(all_units)
        targets = sorted(set(u.binary for u in units))
        p = subprocess.run(["ninja", "-C", BUILD, "-j", str(NCPU)] + targets,
                           stdout=subprocess.PIPE, stderr=subprocess.STDOUT, text=True)
        log("build: %d target(s) in %.1fs (exit %d)" % (len(targets), time.time() - t0, p.returncode))
        if p.returncode != 0:
            sys.stdout.write(p.stdout[-6000:])
        return p.returncode == 0, p.stdout


# ----------------------------------------------------------------------------
# running harnesses
# ----------------------------------------------------------------------------
ASAN_OPTS = "detect_leaks=1:abort_on_error=0:exitcode=99:detect_stack_use_after_return=0:allocator_may_return_null=1:handle_abort=0"
UBSAN_OPTS = "print_stacktrace=1:halt_on_error=1:exitcode=98"


def run_env():
    e = dict(os.environ)
    e["VK_LIVE_TRACE"] = "1"
    e["ASAN_OPTIONS"] = ASAN_OPTS
    e["UBSAN_OPTIONS"] = UBSAN_OPTS
    e["LSAN_OPTIONS"] = "exitcode=97"
    e.pop("RC_PARAMS", None)
    return e


def unit_cmd(u, prop, extra=None):
    cmd = [u.binary, "--prop", prop]
    for k, v in sorted(u.args.items()):
        cmd.append("--%s=%s" % (k, v))
    for k, v in sorted((extra or {}).items()):
        cmd.append("--%s=%s" % (k, v))
    return cmd


def replay_bytes(u, prop, data, extra=None, timeout=120):
    """Run one byte string; returns (exit_code, output)."""
    tmpd = os.path.join(BUILD, "tmp")
    os.makedirs(tmpd, exist_ok=True)
    path = os.path.join(tmpd, "replay_%d_%s.bin" % (os.getpid(), hashlib.sha1(data).hexdigest()[:12]))
    with open(path, "wb") as f:
        f.write(data)
    try:
        p = subprocess.run(unit_cmd(u, prop, extra) + ["--replay", path, "--out", tmpd], env=run_env(),
                           stdout=subprocess.PIPE, stderr=subprocess.STDOUT, timeout=timeout)
        return p.returncode, p.stdout.decode("utf-8", "replace")
    except subprocess.TimeoutExpired as ex:
        return -999, (ex.stdout or b"").decode("utf-8", "replace") + "\n[timeout]"
    finally:
        try:
            os.unlink(path)
        except OSError:
            pass


def fail_signature(code, out):
    """A coarse signature of a failing replay, used to keep minimisation on the same failure."""
    for line in out.splitlines():
        if line.startswith("violation: "):
            return "oracle:" + line.split(":", 2)[1].strip()
    if "UNIFEX_ASSERT(" in out:
        i = out.index("UNIFEX_ASSERT(")
        return "assert:" + out[i:i + 120].split("\n")[0]
    if "AddressSanitizer" in out:
        for line in out.splitlines():
            if "ERROR: AddressSanitizer" in line:
                w = line.split("AddressSanitizer:")[1].split()
                return "asan:" + (w[0] if w else "?")
    if "LeakSanitizer" in out:
        return "lsan:leak"
    if "runtime error:" in out:
        return "ubsan:" + out.split("runtime error:")[1].split("\n")[0].strip()[:80]
    if "DETSCHED-DEADLOCK" in out:
        return "deadlock"
    if code == -999:
        return "timeout"
    return "exit:%d" % code


def minimise(u, prop, data, want_sig, extra, log, budget=400):
    """Delta-debugging over bytes (remove chunks, then zero / halve bytes) keeping the same failure signature."""
    runs = [0]

    def fails(d):
        if runs[0] >= budget:
            return False
        runs[0] += 1
        code, out = replay_bytes(u, prop, bytes(d), extra)
        return code != 0 and fail_signature(code, out) == want_sig

    cur = bytearray(data)
    # strip trailing bytes first (cheap big win)
    n = len(cur)
    chunk = max(1, n // 2)
    while chunk >= 1 and runs[0] < budget:
        i = 0
        progressed = False
        while i < len(cur) and runs[0] < budget:
            cand = cur[:i] + cur[i + chunk:]
            if len(cand) < len(cur) and fails(cand):
                cur = cand
                progressed = True
            else:
                i += chunk
        if not progressed:
            chunk //= 2
    for i in range(len(cur)):
        if runs[0] >= budget:
            break
        if cur[i] == 0:
            continue
        for v in (0, cur[i] // 2, cur[i] - 1):
            if v == cur[i]:
                continue
            cand = bytearray(cur)
            cand[i] = v
            if fails(cand):
                cur = cand
                break
    log("minimised %d -> %d bytes in %d replays" % (len(data), len(cur), runs[0]))
    return bytes(cur)


def run_shards(u, prop, tier, seed, log, extra=None, scale=1.0, per_shard=None):
    secs, cases = u.quick if tier == "quick" else u.thorough
    secs = secs * scale
    nsh = u.shards or NCPU
    per = max(1, cases // nsh)
    base = os.path.join(BUILD, "runs", "%s_%s_%s_%d" % (prop, u.name, tier, os.getpid()))
    shutil.rmtree(base, ignore_errors=True)
    t_end = time.time() + secs
    def launch(i, gen):
        d = os.path.join(base, "s%02d" % i if gen == 0 else "s%02d_r%d" % (i, gen))
        os.makedirs(d)
        ex = dict(extra or {})
        if per_shard:
            ex.update(per_shard(i, d))
        left = secs if gen == 0 else max(1.0, t_end - time.time())
        cmd = unit_cmd(u, prop, ex) + ["--out", d, "--seed", str(seed * 131 + i + 1 + 7919 * gen), "--cases", str(per),
                                           "--secs", str(left), "--max-size", str(u.max_size)]
        if u.pin:
            cmd += ["--cpu", str(i % NCPU)]
        lf = open(os.path.join(d, "log.txt"), "wb")
        return (i, gen, d, subprocess.Popen(cmd, env=run_env(), stdout=lf, stderr=subprocess.STDOUT), lf)
    procs = [launch(i, 0) for i in range(nsh)]
    results = []
    hard = time.time() + secs * 4 + 300
    while procs:
        i, gen, d, p, lf = procs.pop(0)
        try:
            code = p.wait(timeout=max(1, hard - time.time()))
        except subprocess.TimeoutExpired:
            p.kill()
            p.wait()
            code = -999
        lf.close()
        st = None
        try:
            st = json.load(open(os.path.join(d, "stats.json")))
        except Exception:
            pass
        if code == 77:
            # the process left because the running case belongs to a known finding and could not be continued (counted in its
            # stats as excluded): not a failure; use the rest of the shard's budget in a fresh process
            code = 0
            if gen < 40 and time.time() < t_end - 1 and not per_shard:
                procs.append(launch(i, gen + 1))
        results.append(dict(shard=i, dir=d, code=code, stats=st))
    return base, results


def merge_stats(results):
    tot = dict(evaluations=0, nontrivial=0, discarded=0, foreign=0, labels={}, discard_reasons={}, foreign_sigs={}, samples=[])
    hashes = set()
    rule = ""
    for r in results:
        st = r["stats"]
        if not st:
            continue
        rule = st.get("rule", rule)
        for k in ("evaluations", "nontrivial", "discarded", "foreign"):
            tot[k] += st.get(k, 0)
        for k in ("labels", "discard_reasons", "foreign_sigs"):
            for a, b in st.get(k, {}).items():
                tot[k][a] = tot[k].get(a, 0) + b
        if len(tot["samples"]) < 6:
            for s in st.get("samples", []):
                if len(tot["samples"]) < 6 and (s.get("nontrivial") or not any(not x.get("nontrivial") for x in tot["samples"])):
                    tot["samples"].append(s)
        hp = os.path.join(r["dir"], "nt_hashes.bin")
        if os.path.exists(hp):
            b = open(hp, "rb").read()
            hashes.update(struct.unpack("<%dQ" % (len(b) // 8), b[:len(b) // 8 * 8]))
    tot["distinct_nontrivial"] = len(hashes)
    tot["rule"] = rule
    return tot
