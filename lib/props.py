"""Table of properties -> harness units.  bin/check reads this."""
from vcheck import Unit

PROPS = {}

PROPS["C17"] = dict(
    level="exploration",
    units=[
        Unit("c17_bulk", "harness/c17_bulk.cpp", cfg="p17", max_size=40,
             quick=(25, 400000), thorough=(420, 20000000)),
    ],
    assumptions=[
        "the default bulk_schedule runs as a single task, so real-thread schedulers add no schedule nondeterminism",
        "find_if ranges are index-checked iterators: out-of-range evaluation is detected without relying on ASan redzones",
    ],
)

PROPS["C03"] = dict(
    level="exploration",
    units=[
        Unit("c03_stop", "harness/c03_stop.cpp", cfg="d17", max_size=120, pin=True,
             quick=(30, 400000), thorough=(480, 20000000)),
    ],
    assumptions=[
        "L1: detsched explores sequentially-consistent interleavings of atomic operations only; memory-order-only weakenings are invisible",
        "the harness upstream token (adapter variant) is assumed correct",
    ],
)
