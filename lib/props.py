"""Table of properties -> harness units.  bin/check reads this."""
from vcheck import Unit

PROPS = {}

PROPS["C17"] = dict(
    level="exploration",
    units=[
        Unit("c17_bulk", "harness/c17_bulk.cpp", cfg="p17", max_size=40,
             quick=(25, 400000), thorough=(420, 20000000)),
    ],
    assumptions=[
        "the default bulk_schedule runs as a single task, so real-thread schedulers add no schedule nondeterminism",
        "find_if ranges are index-checked iterators: out-of-range evaluation is detected without relying on ASan redzones",
    ],
)

PROPS["C03"] = dict(
    level="exploration",
    units=[
        Unit("c03_stop", "harness/c03_stop.cpp", cfg="d17", max_size=120, pin=True,
             quick=(30, 400000), thorough=(480, 20000000)),
    ],
    assumptions=[
        "L1: detsched explores sequentially-consistent interleavings of atomic operations only; memory-order-only weakenings are invisible",
        "the harness upstream token (adapter variant) is assumed correct",
    ],
)

import os, subprocess, sys
import vcheck as _V

def gen_shapes(name, seed, count, per_tu=6, extra=()):
    """Runs exprfuzz/gen_shapes.py into _build/gen/<name>; rewrites only files whose content changed."""
    out = os.path.join(_V.BUILD, "gen", name)
    tmp = out + ".tmp"
    os.makedirs(tmp, exist_ok=True)
    for f in os.listdir(tmp):
        os.unlink(os.path.join(tmp, f))
    cmd = [sys.executable, os.path.join(_V.VERIF, "exprfuzz/gen_shapes.py"), "--seed", str(seed), "--count", str(count),
           "--out", tmp, "--per-tu", str(per_tu)] + list(extra)
    r = subprocess.run(cmd, stdout=subprocess.PIPE, stderr=subprocess.PIPE, text=True)
    if r.returncode != 0:
        raise RuntimeError("gen_shapes failed: " + r.stderr)
    os.makedirs(out, exist_ok=True)
    new = sorted(os.listdir(tmp))
    for f in os.listdir(out):
        if f not in new:
            os.unlink(os.path.join(out, f))
    files = []
    for f in new:
        a, b = os.path.join(tmp, f), os.path.join(out, f)
        data = open(a).read()
        if not os.path.exists(b) or open(b).read() != data:
            open(b, "w").write(data)
        files.append(b)
    return files

_EF_QUICK = gen_shapes("ef_quick", 20260923, int(os.environ.get("VERIF_EF_COUNT", "120")), extra=["--exclude", "K_SIR"])
_EF_ASSUME = [
    "sequential event mode: one thread, the driver chooses the order of deferred completions and stop requests (schedules at callback granularity, not atomic granularity)",
    "the reference model encodes doc/api_reference.md plus the precedence rules named in the property anchors; a model rule without a citation is not used",
]
for _p in ("C01", "C02", "C04", "C05", "C11", "C12"):
    PROPS[_p] = dict(level="fault_enumeration" if _p == "C02" else "exploration",
                     units=[Unit("exprfuzz", "harness/exprfuzz.cpp", cfg="p17", extra_src=["exprfuzz/pinned.cpp"] + _EF_QUICK, max_size=90,
                                 quick=(40, 600000), thorough=(600, 30000000))],
                     assumptions=_EF_ASSUME)

_DS_ASSUME = [
    "L1: detsched explores sequentially-consistent interleavings of atomic operations only; memory-order-only weakenings are invisible",
    "schedules are generated (preemption list / random walk / PCT), not enumerated",
]
PROPS["C15"] = dict(level="exploration",
    units=[Unit("c15_mutex", "harness/c15_mutex.cpp", cfg="d17", max_size=120, pin=True, shards=8,
                quick=(30, 400000), thorough=(480, 20000000))],
    assumptions=_DS_ASSUME)

_EF_MT = Unit("exprfuzz_mt", "harness/exprfuzz_mt.cpp", cfg="dg17", extra_src=["exprfuzz/pinned.cpp"] + _EF_QUICK, max_size=140, pin=True, shards=8,
              quick=(40, 300000), thorough=(600, 20000000))
for _p in ("C01", "C02", "C04"):
    PROPS[_p]["units"].append(_EF_MT)
    PROPS[_p]["assumptions"] = PROPS[_p]["assumptions"] + _DS_ASSUME

PROPS["C06"] = dict(level="exploration",
    units=[Unit("c06_sched", "harness/c06_sched.cpp", cfg="d17", max_size=120, pin=True, shards=8,
                quick=(30, 400000), thorough=(480, 20000000))],
    assumptions=_DS_ASSUME + ["std::mutex / condition_variable / thread inside the contexts are modelled by detsched (spurious wake-ups are generated)"])

PROPS["C16"] = dict(level="exploration",
    units=[Unit("c16_event", "harness/c16_event.cpp", cfg="d17", max_size=120, pin=True, shards=8,
                quick=(25, 400000), thorough=(400, 20000000)),
           Unit("c16_pass", "harness/c16_pass.cpp", cfg="d20", max_size=120, pin=True, shards=8,
                quick=(25, 400000), thorough=(400, 20000000))],
    assumptions=_DS_ASSUME)

PROPS["C19"] = dict(level="exploration",
    units=[Unit("c19_cancel", "harness/c19_cancel.cpp", cfg="d17", max_size=120, pin=True, shards=8,
                quick=(45, 400000), thorough=(480, 20000000)),
           Unit("c19_canary", "harness/c19_canary.cpp", cfg="d17", max_size=100, pin=True, shards=8,
                quick=(12, 400000), thorough=(200, 20000000)),
           Unit("c19_create", "harness/c19_create.cpp", cfg="d20", max_size=100, pin=True, shards=8,
                quick=(15, 400000), thorough=(240, 20000000))],
    assumptions=_DS_ASSUME)

_C08U = Unit("c08_scope", "harness/c08_scope.cpp", cfg="d17", max_size=140, pin=True, shards=8,
             quick=(35, 400000), thorough=(480, 20000000))
PROPS["C08"] = dict(level="exploration", units=[_C08U], assumptions=_DS_ASSUME)
PROPS["C09"] = dict(level="exploration", units=[_C08U], assumptions=_DS_ASSUME)

PROPS["C07"] = dict(level="exploration",
    units=[Unit("c07_timers", "harness/c07_timers.cpp", cfg="d17", max_size=120, pin=True, shards=8,
                quick=(25, 400000), thorough=(400, 20000000)),
           Unit("c07_clock", "harness/c07_clock.cpp", cfg="p17", max_size=60,
                quick=(10, 600000), thorough=(120, 30000000))],
    assumptions=_DS_ASSUME + ["virtual time: std::chrono::steady_clock inside libunifex is the deterministic scheduler's clock",
                              "io_epoll_context / io_uring_context timers (real kernel time) are exercised by the C14 check's units"])

PROPS["C13"] = dict(level="exploration",
    units=[Unit("c13_streams", "harness/c13_streams.cpp", cfg="p17", max_size=90,
                quick=(30, 600000), thorough=(480, 30000000))],
    assumptions=["sequential event mode: one thread, the driver chooses the order of deferred completions, trigger firing and stop requests (callback granularity); the atomics inside take_until / stop_immediately / type_erased_stream are exercised only along those orders",
                 "the exact-sequence oracle applies when neither a stop request nor a firing take_until trigger can cut the sequence; otherwise prefix + fold-consistency + source-side invariants"])

PROPS["C18"] = dict(level="exploration",
    units=[Unit("c18_erasure", "harness/c18_erasure.cpp", cfg="p17", max_size=90, quick=(20, 600000), thorough=(300, 30000000)),
           # "expression with wrapper == expression without": the expression / stream units restricted to the shapes that contain a
           # type-erasing wrapper; the reference models treat the wrapper as the identity, so every oracle bears on C18 there (retag)
           Unit("exprfuzz", "harness/exprfuzz.cpp", cfg="p17", extra_src=["exprfuzz/pinned.cpp"] + _EF_QUICK, max_size=90,
                args={"require-kind": "any_sender_of", "retag": "1"}, quick=(25, 600000), thorough=(300, 30000000)),
           Unit("c13_streams", "harness/c13_streams.cpp", cfg="p17", max_size=90,
                args={"require-stage": "type_erase", "retag": "1"}, quick=(15, 600000), thorough=(240, 30000000))],
    assumptions=_EF_ASSUME + ["sequential, single-threaded: wrapper operations are not raced against each other",
                              "any_sender_of / type_erased_stream inside larger expressions are compared against reference models in which the wrapper is the identity"])

PROPS["C10"] = dict(level="exploration",
    units=[Unit("c10_tasks", "harness/c10_tasks.cpp", cfg="p20", max_size=100, quick=(30, 600000), thorough=(480, 30000000))],
    assumptions=["sequential event mode: one thread; the driver decides when deferred sender completions, awaitable resumptions and scheduler hops are delivered and when the stop request arrives (always while a chosen sender occurrence is in flight)",
                 "built as C++20 with clang (the pinned C++17 build compiles none of this code); async stack tracing off in this unit (the traced configuration is run under C20)"])

# the task<> part of C04 (task.hpp is one of its anchors): the coroutine programs of C10 run with the stop-callback bookkeeping oracles of the harness stop source
PROPS["C04"]["units"].append(Unit("c10_tasks", "harness/c10_tasks.cpp", cfg="p20", max_size=100, quick=(15, 300000), thorough=(240, 20000000)))

PROPS["C14"] = dict(level="exploration",
    units=[Unit("c14_epoll", "harness/c14_epoll.cpp", cfg="d17", max_size=120, pin=True, shards=8,
                quick=(30, 400000), thorough=(480, 20000000)),
           Unit("c14_uring", "harness/c14_uring.cpp", cfg="p17", max_size=80, shards=6,
                quick=(25, 400000), thorough=(300, 20000000)),
           Unit("c14_uring_ds", "harness/c14_uring_ds.cpp", cfg="d17", max_size=120, pin=True, shards=8,
                quick=(25, 400000), thorough=(300, 20000000))],
    assumptions=_DS_ASSUME + ["the kernel side (pipe, eventfd, timerfd, epoll) is real and not under schedule control; epoll_wait is hooked so that the loop thread never sleeps in the kernel while another thread can run",
                              "syscall failures and short transfers are injected at the readv/writev call sites of the library (generated index and errno)"])

# ---- C20: the same generated cases under each build configuration; observable digests must be identical
_EF_C20 = gen_shapes("ef_c20", 20260924, int(os.environ.get("VERIF_EF_C20_COUNT", "30")), extra=["--exclude", "K_SIR", "--no-targeted"])
def _c20_units():
    us = []
    def grp(prefix, src, extra_src, ref_cfg, cfgs, quick, thorough, max_size):
        ref = Unit("%s_%s" % (prefix, ref_cfg), src, cfg=ref_cfg, extra_src=extra_src, max_size=max_size, shards=8, quick=quick, thorough=thorough)
        ref.is_ref = True
        us.append(ref)
        for c in cfgs:
            t = Unit("%s_%s" % (prefix, c), src, cfg=c, extra_src=extra_src, max_size=max_size, shards=8, quick=quick, thorough=thorough,
                     args={"ref-binary": ref.binary, "ref-name": ref_cfg})
            t.ref_unit = ref.name
            us.append(t)
    grp("ef20", "harness/exprfuzz.cpp", ["exprfuzz/pinned.cpp"] + _EF_C20, "p17", ["r17", "s17", "v17", "p20"], (40, 48000), (300, 2000000), 90)
    grp("st20", "harness/c13_streams.cpp", [], "p17", ["r17", "s17", "p20"], (30, 48000), (240, 2000000), 90)
    grp("tk20", "harness/c10_tasks.cpp", [], "p20", ["s20"], (25, 48000), (240, 2000000), 100)
    return us
# async_trace oracle: a mid-size catalogue in the continuation-visitation build only; async_trace() taken from every leaf's receiver
# must reach the outermost receiver (except through the adaptors of the known finding async_trace_chain_stops)
_EF_TRACE = gen_shapes("ef_trace", 20260925, int(os.environ.get("VERIF_EF_TRACE_COUNT", "84")), extra=["--exclude", "K_SIR", "--no-targeted"])
def _c20_trace_unit():
    return Unit("ef20_trace", "harness/exprfuzz.cpp", cfg="v17", extra_src=["exprfuzz/pinned.cpp"] + _EF_TRACE, max_size=90, shards=8, quick=(20, 300000), thorough=(240, 20000000))
PROPS["C20"] = dict(level="exploration", units=_c20_units() + [_c20_trace_unit()],
    assumptions=["every configuration runs the same generated byte strings (same seeds); a digest is the harness's record of what a user can observe: completion channel, values / error identity, completion context, relative order of starts, completions, stop observations and cleanups",
                 "configurations: p17 = C++17, assertions on, no async stacks (reference); r17 = C++17 -DNDEBUG (assertions and async stacks compiled out); s17 = C++17 with async stack tracing; v17 = C++17 with UNIFEX_ENABLE_CONTINUATION_VISITATIONS=1; p20 = C++20 (clang); s20 = C++20 (g++) with async stack tracing (coroutine tasks)",
                 "copy/move counts of values and allocation counts are not part of the digest (the language may elide differently)"])

# C04 for streams: take_until cancels its trigger, stop_immediately abandons the in-flight next (anchors of C04); the stream unit restricted to
# the pipelines containing one of them, every oracle (stop reaches the sources, nothing is waited for beyond the running children) bears on C04 there
PROPS["C04"]["units"].append(Unit("c13_streams", "harness/c13_streams.cpp", cfg="p17", max_size=90, args={"require-stage": "cancel", "retag": "1"}, quick=(15, 600000), thorough=(240, 30000000)))

# C11 for coroutine tasks: the programs of C10 with the scheduler-affinity oracles (resumption and completion context)
PROPS["C11"]["units"].append(Unit("c10_tasks", "harness/c10_tasks.cpp", cfg="p20", max_size=100, quick=(15, 300000), thorough=(240, 20000000)))

# C10 with async stack tracing compiled in (g++ C++20): the await paths differ (frames pushed/popped around every await)
PROPS["C10"]["units"].append(Unit("c10_tasks_traced", "harness/c10_tasks.cpp", cfg="s20", max_size=100, quick=(20, 400000), thorough=(300, 20000000)))
PROPS["C10"]["assumptions"] = PROPS["C10"]["assumptions"][:1] + ["two builds: C++20 clang without async stack tracing, and C++20 g++ with tracing on (unit c10_tasks_traced)"]

# C07 for the epoll context's timers (kernel time, not virtual): the C14 epoll unit's concurrent timer group with remote stops
PROPS["C07"]["units"].append(Unit("c14_epoll", "harness/c14_epoll.cpp", cfg="d17", max_size=120, pin=True, shards=8, quick=(25, 300000), thorough=(300, 20000000)))

# C07 for io_uring_context's timers under schedule control (remote stops around expiry, never-early oracle)
PROPS["C07"]["units"].append(Unit("c14_uring_ds", "harness/c14_uring_ds.cpp", cfg="d17", max_size=120, pin=True, shards=8, quick=(15, 300000), thorough=(200, 20000000)))

PROPS["C08"]["units"] = PROPS["C08"]["units"] + [Unit("c08_scope_v0", "harness/c08_scope_v0.cpp", cfg="d17", max_size=120, pin=True, shards=8, quick=(15, 300000), thorough=(240, 20000000))]
