// exprfuzz runner: connects a statically-typed generated sender expression to
// the harness root receiver inside poisoned storage and drives it in lockstep
// with the reference model.
#pragma once
#include "exprfuzz/desc.hpp"
#include "exprfuzz/model.hpp"
#include "kit/sr.hpp"

#include <unifex/allocate.hpp>
#include <unifex/any_sender_of.hpp>
#include <unifex/defer.hpp>
#include <unifex/dematerialize.hpp>
#include <unifex/done_as_optional.hpp>
#include <unifex/finally.hpp>
#include <unifex/into_variant.hpp>
#include <unifex/just.hpp>
#include <unifex/just_from.hpp>
#include <unifex/just_void_or_done.hpp>
#include <unifex/let_done.hpp>
#include <unifex/let_error.hpp>
#include <unifex/let_value.hpp>
#include <unifex/let_value_with.hpp>
#include <unifex/let_value_with_stop_source.hpp>
#include <unifex/let_value_with_stop_token.hpp>
#include <unifex/materialize.hpp>
#include <unifex/on.hpp>
#include <unifex/repeat_effect_until.hpp>
#include <unifex/retry_when.hpp>
#include <unifex/sequence.hpp>
#if !UNIFEX_NO_COROUTINES
#include <unifex/stop_if_requested.hpp>
#endif
#include <unifex/stop_when.hpp>
#include <unifex/then.hpp>
#include <unifex/typed_via.hpp>
#include <unifex/unstoppable.hpp>
#include <unifex/upon_done.hpp>
#include <unifex/upon_error.hpp>
#include <unifex/via.hpp>
#include <unifex/when_all.hpp>
#include <unifex/when_any.hpp>
#include <unifex/when_all_range.hpp>
#include <unifex/nest.hpp>
#include <unifex/sync_wait.hpp>
#include <unifex/v2/async_scope.hpp>
#include <unifex/with_allocator.hpp>
#include <unifex/with_query_value.hpp>

#include <optional>
#include <variant>

namespace ef {

struct Plan {
  std::vector<sr::LeafSpec> spec;
  std::map<int, int> node_arg;
  bool stop_before_start = false;
  int stop_tokens = 0;               // how many times "request stop" is offered as an event
  bool stop_after_completion = false;
  bool destroy_on_completion = false;
  bool never_start = false;
  uint8_t poison = 0;
  int fault_node = -1, fault_call = -1;   // modelled fault: callable of node throws
  int stop_call_node = -1, stop_call_idx = -1;   // the callable of this node requests stop on the root source at this call
  long anon_fault = -1;                   // anonymous fault: k-th throw point (copy/move/connect/alloc)
  std::string text;
};

struct Outcome {          // what a run produced, for oracles / differential comparison
  bool escaped = false;   // an exception left sender construction / connect
  bool started = false;
  int signals = 0; sr::Result result; int result_ctx = -1;
  bool model_done = false; sr::Result model_result; int model_ctx = -1;
  std::string summary;    // canonical string of observable behaviour (poison differential)
  std::string order;      // relative order and contexts of leaf starts / completions and of the root completion (C20 digest)
  int steps = 0; int stops_while_running = 0; int storage_switches = 0; bool fault_fired = false;
  int leaves_started = 0; bool had_deferred = false; bool nonvalue_leaf = false;
  std::map<long, long> allocate_started;   // model: allocator id -> allocate() nodes started with it visible
  long throw_points = 0;                   // throwable events met by this run (value copies/moves, leaf connects, harness allocator calls)
};

struct RunCtl {
  vk::Choice* c = nullptr;
  Plan plan;
  Outcome out;
  std::vector<uint8_t> event_picks;   // recorded choices so that a second (differential) run repeats them
  bool replaying_picks = false; size_t pick_pos = 0;
  int trait_blocking = 2; bool trait_sends_done = true; bool trait_affine = false;   // static traits of the whole expression
  uint32_t pick(uint32_t n) {
    if (n <= 1) return 0;
    if (replaying_picks) { uint32_t v = pick_pos < event_picks.size() ? event_picks[pick_pos] : 0; pick_pos++; return v % n; }
    uint32_t v = c->upto(n); event_picks.push_back((uint8_t)v); return v;
  }
};

struct RunState {   // shared between Root, runner and driver (type-erased part)
  sr::World w;
  sr::HStopSource hstop;
  unifex::inplace_stop_source* inplace = nullptr;
  sr::AllocLedger ledger;
  sr::AllocLedger ledger_n[2];        // allocators #2 and #3 (with_allocator nodes)
  unifex::v2::async_scope* scope = nullptr;          // open scope for nest() nodes, created on first use, joined after the run
  unifex::v2::async_scope* closed_scope = nullptr;   // a scope whose join has already completed
  bool use_inplace = false;
  std::function<void()> destroy_op;
  bool op_alive = false;
};
inline RunState*& run_state() { static RunState* r = nullptr; return r; }

template <int CFG>
struct Cfg {
  static constexpr bool inplace = (CFG & 1) != 0;
  static constexpr bool throwing = (CFG & 2) != 0;
  using Tracked = sr::TrackedT<!throwing>;
};

// ------------------------------------------------------------------ environment handed to generated shapes
template <class C>
struct Env {
  using T = typename C::Tracked;
  static void call(int nid) {
    auto& w = sr::W();
    int c = w.calls[nid]++;
    if (nid == w.stop_call_node && c == w.stop_call_idx && w.request_root_stop) { SR_TR("the callable of node %d requests stop on the root source", nid); w.request_root_stop(); }
    if (nid == w.fault_node && c == w.fault_call) { w.fault_fired = true; w.fault_site = "callable"; throw sr::Injected{0}; }
  }
  sr::Leaf<T> leaf(int id) const { return {id}; }
  sr::Leaf<void> leafv(int id) const { return {id}; }
  sr::Leaf<T, 0 /*always_inline*/, true> leaf_ai(int id) const { return {id}; }
  sr::Leaf<T, 2 /*maybe*/, false> leaf_nd(int id) const { return {id}; }
  T val(int nid) const { return T(sr::mix(7, (uint64_t)nid)); }
  T lvw_state(int nid) const { return T(sr::mix(13, (uint64_t)nid)); }
  sr::HSched sched(int ctx) const { return sr::HSched{ctx}; }
  bool flag(int nid) const { return sr::W().node_arg[nid] != 0; }
  void bind_val(int nid, const T& v) const { bound()[nid] = v.read(); }
  void bind_err_code(int nid, long code) const { bound_err()[nid] = code; }
  template <class E> void bind_err(int nid, const E& e) const {
    long code = sr::error_code(e);
    if (code == 4444444 || code == 4444445) SR_FAIL(vk::ctx().prop == "C05" ? "C05" : "C02", "dead_error_read", "the error handler of node %d was handed %s: the adaptor kept a reference to the error after destroying the child operation the error object lived in", nid, code == 4444444 ? "the contents of an error slot of a destroyed child operation" : "an empty exception_ptr");
    bound_err()[nid] = code;
  }
  T errval(int nid) const { return T(sr::mix(11, (uint64_t)bound_err()[nid])); }
  T copy(const T& v) const { return T(v.read()); }
  void bind_ss(int nid, unifex::inplace_stop_source* ss) const { sr::W().bound_ss[nid] = ss; }
  void req_ss(int nid) const { auto* s = sr::W().bound_ss[nid]; if (s) s->request_stop(); }
  static std::unordered_map<int, uint64_t>& bound() { return sr::W().bound_val; }
  static std::unordered_map<int, long>& bound_err() { return sr::W().bound_err; }

  struct Fn { int nid; T operator()(T v) const { call(nid); return T(sr::mix((uint64_t)nid, v.read())); } };
  struct VFn { int nid; T operator()() const { call(nid); return T(sr::mix((uint64_t)nid, 0)); } };
  struct Sink { int nid; void operator()(T v) const { call(nid); (void)v.read(); } };
  struct EFn { int nid; template <class E> T operator()(E&& e) const {
    call(nid); long code = sr::error_code(e);
    if (code == 4444444 || code == 4444445) SR_FAIL(vk::ctx().prop == "C05" ? "C05" : "C02", "dead_error_read", "the callable of node %d was handed %s", nid, code == 4444444 ? "the contents of an error slot of a destroyed child operation" : "an empty exception_ptr");
    return T(sr::mix((uint64_t)nid, (uint64_t)code)); } };
  struct JF { int nid; T operator()() const { call(nid); return T(sr::mix((uint64_t)nid, 1)); } };
  struct Pred { int nid; bool operator()() const { call(nid); return sr::W().calls[nid] >= sr::W().node_arg[nid]; } };
  template <class V> static uint64_t payload_of(const V& v) {
    return std::visit([](const auto& tup) -> uint64_t { if constexpr (std::tuple_size_v<std::decay_t<decltype(tup)>> == 0) return 0; else return std::get<0>(tup).read(); }, v);
  }
  struct WAFn { int nid; template <class... Vs> T operator()(Vs&&... vs) const { uint64_t acc = (uint64_t)nid; ((acc = sr::mix(acc, payload_of(vs))), ...); return T(acc); } };
  struct OptFn { int nid; T operator()(std::optional<T> o) const { return T(sr::mix((uint64_t)nid, o ? o->read() + 1 : 0)); } };
  struct IVFn { int nid; template <class V> T operator()(V&& v) const { return T(sr::mix((uint64_t)nid, payload_of(v))); } };
  Fn fn(int nid) const { return {nid}; }
  VFn vfn(int nid) const { return {nid}; }
  Sink sink(int nid) const { return {nid}; }
  EFn efn(int nid) const { return {nid}; }
  VFn dfn(int nid) const { return {nid}; }
  JF jf(int nid) const { return {nid}; }
  Pred pred(int nid) const { return {nid}; }
  WAFn wafn(int nid) const { return {nid}; }
  OptFn optfn(int nid) const { return {nid}; }
  IVFn ivfn(int nid) const { return {nid}; }
  sr::CountingAlloc<std::byte> alloc(int id) const {
    RunState& rs = *run_state();
    if (id == 2 || id == 3) { rs.ledger_n[id - 2].id = id; return sr::CountingAlloc<std::byte>(&rs.ledger_n[id - 2]); }
    return sr::CountingAlloc<std::byte>(&rs.ledger);
  }
  // when_all_range: a vector of senders of one type
  template <class S, class... Ss> std::vector<S> vec(S s, Ss... ss) const { std::vector<S> v; v.reserve(1 + sizeof...(Ss)); v.push_back(std::move(s)); (v.push_back(std::move(ss)), ...); return v; }
  std::vector<sr::Leaf<T>> vec0() const { return {}; }
  struct WarFn { int nid; T operator()(std::vector<T> v) const { uint64_t acc = (uint64_t)nid; for (auto& x : v) acc = sr::mix(acc, x.read()); return T(acc); } };
  WarFn warfn(int nid) const { return {nid}; }
  unifex::v2::async_scope& scope() const {
    RunState& rs = *run_state();
    if (!rs.scope) rs.scope = new unifex::v2::async_scope();
    return *rs.scope;
  }
  unifex::v2::async_scope& closed_scope() const {
    RunState& rs = *run_state();
    if (!rs.closed_scope) { rs.closed_scope = new unifex::v2::async_scope(); unifex::sync_wait(rs.closed_scope->join()); }
    return *rs.closed_scope;
  }
};

// ------------------------------------------------------------------ root receiver
template <class C>
struct Root {
  using T = typename C::Tracked;
  static void signal(int chan, uint64_t payload, long err) noexcept {
    RunState& rs = *run_state(); sr::World& w = rs.w;
    w.root_signals++;
    if (w.root_signals > 1) { SR_FAIL("C01", "double_completion", "the outermost receiver was completed %d times (second signal: %s)", w.root_signals, sr::chan_name(chan)); return; }
    if (!w.started) SR_FAIL("C01", "completion_before_start", "the outermost receiver was completed (%s) before start() was called", sr::chan_name(chan));
    w.root.chan = chan; w.root.payload = payload; w.root.err = err; w.root_ctx = w.current_ctx; w.t_root = w.tick();
    w.root_completed_in_start = w.in_start;
    SR_TR("ROOT completes with %s payload=%llx err=%ld on ctx%d%s", sr::chan_name(chan), (unsigned long long)payload, err, w.current_ctx, w.in_start ? " (inside start())" : "");
    if (!rs.use_inplace) rs.hstop.mark_root_completed();
    if (w.on_root_complete) w.on_root_complete();
  }
  void set_value() && noexcept { signal(sr::VALUE, 0, 0); }
  void set_value(T&& v) && noexcept { uint64_t p = v.read(); signal(sr::VALUE, p, 0); }
  void set_value(const T& v) && noexcept { uint64_t p = v.read(); signal(sr::VALUE, p, 0); }
  template <class E> void set_error(E&& e) && noexcept { signal(sr::ERROR, 0, sr::error_code(e)); }
  void set_done() && noexcept { signal(sr::DONE, 0, 0); }
  friend auto tag_invoke(unifex::tag_t<unifex::get_stop_token>, const Root&) noexcept {
    if constexpr (C::inplace) return run_state()->inplace ? run_state()->inplace->get_token() : unifex::inplace_stop_token{};
    else return sr::HStopToken{&run_state()->hstop};
  }
  friend sr::HSched tag_invoke(unifex::tag_t<unifex::get_scheduler>, const Root&) noexcept { return sr::HSched{7}; }
  friend sr::CountingAlloc<std::byte> tag_invoke(unifex::tag_t<unifex::get_allocator>, const Root&) noexcept { return sr::CountingAlloc<std::byte>(&run_state()->ledger); }
  friend long tag_invoke(sr::verif_tag_fn, const Root&) noexcept { return 424242; }
};

// C++17 concept emulation caches receiver_of<R, Vs...> in variable templates; make sure the first evaluation
// happens here, where Root is complete (otherwise some compositions evaluate it first in a context where it
// is false and then fail to compile -- a build artefact, unrelated to any runtime property).
#define EF_PRIME(N)                                                                          \
  static_assert(unifex::receiver_of<Root<Cfg<N>>, typename Cfg<N>::Tracked>, "root receiver"); \
  static_assert(unifex::receiver_of<Root<Cfg<N>>>, "root receiver (void)");
EF_PRIME(0) EF_PRIME(1) EF_PRIME(2) EF_PRIME(3)
#undef EF_PRIME

// non-template part: event loop + oracles (exprfuzz.cpp)
void drive(const ShapeDesc& sd, RunCtl& ctl, RunState& rs, const std::function<void()>& do_start);
void begin_run(const ShapeDesc& sd, RunCtl& ctl, RunState& rs);
void end_run(const ShapeDesc& sd, RunCtl& ctl, RunState& rs);

// the harness-owned scopes: once the operation state (and with it every nest sender / nest operation) is gone, nothing may
// still hold a reference on the scope (C08: join completes once all nested work has finished or been discarded)
inline void finish_scopes(const ShapeDesc& sd, RunState& rs) {
  if (rs.closed_scope) {
    if (rs.closed_scope->use_count() != 0 || !rs.closed_scope->joined()) SR_FAIL("C08", "closed_scope_count", "a scope that had been joined before nest() was called has use_count()=%zu after the run [%s]", rs.closed_scope->use_count(), sd.text);
    else delete rs.closed_scope;   // (leaked on failure: its destructor would assert)
    rs.closed_scope = nullptr;
  }
  if (rs.scope) {
    if (rs.scope->use_count() != 0) SR_FAIL("C08", "scope_reference_leak", "the operation state and every nest() sender are destroyed but the scope still counts %zu outstanding operation(s): join() would never complete [%s]", rs.scope->use_count(), sd.text);
    else { unifex::sync_wait(rs.scope->join()); delete rs.scope; }
    rs.scope = nullptr;
  }
}

template <class C, class Make>
void run_shape_impl(const ShapeDesc& sd, RunCtl& ctl, Make make) {
  RunState rs;
  run_state() = &rs;
  rs.use_inplace = C::inplace;
  begin_run(sd, ctl, rs);
  rs.w.root_type = &typeid(Root<C>);
  using Snd = decltype(make(Env<C>{}));
  ctl.trait_blocking = (int)unifex::sender_traits<Snd>::blocking();
  ctl.trait_sends_done = unifex::sender_traits<Snd>::sends_done;
  ctl.trait_affine = unifex::sender_traits<Snd>::is_always_scheduler_affine;
  using Op = unifex::connect_result_t<Snd, Root<C>>;
  void* buf = std::malloc(sizeof(Op) + 64);
  std::memset(buf, ctl.plan.poison, sizeof(Op) + 64);
  Op* op = nullptr;
  try {
    op = ::new (buf) Op(unifex::connect(make(Env<C>{}), Root<C>{}));
  } catch (const sr::Injected&) {
    ctl.out.escaped = true;
    SR_TR("an injected exception left sender construction / connect()");
  }
  if (op) {
    rs.op_alive = true;
    rs.destroy_op = [&rs, op, buf] {
      if (!rs.op_alive) return;
      rs.op_alive = false;
      op->~Op();
      std::memset(buf, 0xDD, sizeof(Op));
      std::free(buf);
    };
    drive(sd, ctl, rs, [op] { unifex::start(*op); });
    rs.destroy_op();
  } else {
    std::free(buf);
  }
  finish_scopes(sd, rs);
  end_run(sd, ctl, rs);
  run_state() = nullptr;
}

struct Registry { std::vector<const ShapeDesc*> shapes; };
inline Registry& registry() { static Registry r; return r; }
struct Reg { explicit Reg(const ShapeDesc* s) { registry().shapes.push_back(s); } };

}  // namespace ef
