// Shape descriptions shared by the generated C++ shapes, the reference model
// and the runner.  A shape is a tree of nodes; children are indices into the
// node table.  `nid` identifies the node in both worlds (function ids, leaf ids).
#pragma once
#include <cstdint>

namespace ef {

enum Kind : int {
  K_LEAF = 0,      // harness leaf producing Tracked            a = leaf id
  K_LEAFV,         // harness leaf producing void               a = leaf id
  K_JUST,          // just(Tracked)
  K_JUST_FROM,     // just_from(fn)
  K_JVOD,          // just_void_or_done(flag)                   runtime flag in node_arg[nid]
  K_SIR,           // stop_if_requested()
  K_SCHEDULE,      // schedule(HSched{a})                       a = ctx
  K_REF,           // just(copy of the value bound by let_value node a)
  K_ERRREF,        // just(Tracked made from the error bound by let_error node a)
  K_REQSTOP,       // just_from([]{ stop_source_of_node_a.request_stop(); })
  K_THEN,          // then(c0, fn)           V->V
  K_E2V,           // then(c0, fn)           E->V
  K_V2E,           // then(c0, sink)         V->E
  K_UPON_ERROR,    // upon_error(c0, fn)
  K_UPON_DONE,     // upon_done(c0, fn)
  K_LET_VALUE,     // let_value(c0, [](Tracked&){ return c1; })
  K_LET_ERROR,     // let_error(c0, [](auto&&){ return c1; })
  K_LET_DONE,      // let_done(c0, []{ return c1; })
  K_FINALLY,       // finally(c0, c1)        c1 is E
  K_VIA,           // via(c0, HSched{a})      == finally(c0, schedule)
  K_TYPED_VIA,     // typed_via(c0, HSched{a})
  K_ON,            // on(HSched{a}, c0)
  K_SEQUENCE,      // sequence(c0.., c_last)
  K_WHEN_ALL,      // then(when_all(c...), normalise)
  K_WHEN_ANY,      // when_any(c...)
  K_STOP_WHEN,     // stop_when(c0, c1)      c1 is E
  K_UNSTOPPABLE,   // unstoppable(c0)
  K_MATDEMAT,      // dematerialize(materialize(c0))
  K_DONE_AS_OPT,   // then(done_as_optional(c0), normalise)
  K_RETRY_WHEN,    // retry_when(c0, [](auto&&){ return c1; })
  K_REPEAT,        // repeat_effect_until(c0, pred)   c0 is E; pred true at call node_arg[nid]
  K_LVWSS,         // let_value_with_stop_source([](auto& ss){ return c0; })
  K_LVWST,         // let_value_with_stop_token([](inplace_stop_token){ return c0; })
  K_LVW,           // let_value_with(factory, [](Tracked&){ return c0; })   REF nodes may read the state
  K_ANY,           // any_sender_of<...>(c0)
  K_ALLOCATE,      // allocate(c0)
  K_DEFER,         // defer([]{ return c0; })
  K_INTO_VARIANT,  // then(into_variant(c0), normalise)
  K_WITH_QUERY,    // with_query_value(c0, verif_tag, nid)
  K_WITH_ALLOC,    // with_allocator(c0, alloc #a)
  K_VARIANT,       // variant_sender<A,B> chosen at run time by node_arg[nid] (0 -> c0, 1 -> c1) via defer
  K_LEAF_AI,       // harness leaf whose sender_traits declare blocking == always_inline (always completes inside start())
  K_LEAF_ND,       // harness leaf whose sender_traits declare sends_done == false (never completes with done)
  K_WAR,           // then(when_all_range(vector{c...}), normalise)   children all of one C++ type (0..3 of them)
  K_NEST,          // nest(c0, scope)        scope: an open v2::async_scope owned by the harness, joined after the run
  K_NEST_CLOSED,   // nest(c0, closed scope) the scope was joined before the expression was built: done, c0 never started
  K__COUNT
};

inline const char* kind_name(int k) {
  static const char* n[] = {"leaf", "leafv", "just", "just_from", "just_void_or_done", "stop_if_requested", "schedule", "ref", "errref",
                            "reqstop", "then", "then(E->V)", "then(V->E)", "upon_error", "upon_done", "let_value", "let_error", "let_done",
                            "finally", "via", "typed_via", "on", "sequence", "when_all", "when_any", "stop_when", "unstoppable",
                            "materialize|dematerialize", "done_as_optional", "retry_when", "repeat_effect_until", "let_value_with_stop_source",
                            "let_value_with_stop_token", "let_value_with", "any_sender_of", "allocate", "defer", "into_variant",
                            "with_query_value", "with_allocator", "variant_sender", "leaf[always_inline]", "leaf[sends_done=false]",
                            "when_all_range", "nest", "nest(closed scope)"};
  return (k >= 0 && k < K__COUNT) ? n[k] : "?";
}

struct NodeDesc {
  int kind;
  int nid;          // unique node id within the shape
  int a;            // kind-specific (leaf id / ctx / bound node)
  int nchild;
  int child[5];
  char vt;          // 'V' produces Tracked, 'E' produces void
};

struct RunCtl;  // defined by the runner

struct ShapeDesc {
  int id;
  const char* text;          // the C++ expression, for traces and evidence
  const NodeDesc* nodes;
  int nnodes;
  int root;
  int nleaves;               // harness leaves are numbered 0..nleaves-1
  int cfg;                   // build flavour: bit0 root token (0 HStop, 1 inplace), bit1 throwing Tracked moves
  void (*run)(const ShapeDesc&, RunCtl&);
};

}  // namespace ef
