// Hand-written shapes with fixed ids (>= 9000), part of every catalogue.  Regression replays refer to them by id
// (--shape=ID), so they stay meaningful when the generated catalogue changes.
#include "exprfuzz/runner.hpp"
namespace {
using namespace ef;

// P9001: finally whose completion sender fails with an error stored inside the completion operation
static const NodeDesc nodes_9001[] = {
  {K_VIA, 1, 2, 2, {1, 6, 0, 0, 0}, 'V'},
  {K_FINALLY, 2, 0, 2, {2, 3, 0, 0, 0}, 'V'},
  {K_LEAF, 3, 0, 0, {0, 0, 0, 0, 0}, 'V'},
  {K_STOP_WHEN, 4, 0, 2, {4, 5, 0, 0, 0}, 'E'},
  {K_LEAFV, 5, 1, 0, {0, 0, 0, 0, 0}, 'E'},
  {K_LEAFV, 6, 2, 0, {0, 0, 0, 0, 0}, 'E'},
  {K_SCHEDULE, 7, 2, 0, {0, 0, 0, 0, 0}, 'E'}
};
static void run_9001(const ShapeDesc& sd, RunCtl& ctl) {
  run_shape_impl<Cfg<3>>(sd, ctl, [](auto e) {
    return unifex::via(unifex::finally(e.leaf(0), unifex::stop_when(e.leafv(1), e.leafv(2))), e.sched(2));
  });
}
static const ShapeDesc shape_9001 = {9001, "unifex::via(unifex::finally(e.leaf(0), unifex::stop_when(e.leafv(1), e.leafv(2))), e.sched(2))", nodes_9001, 7, 0, 3, 3, &run_9001};
static Reg reg_9001(&shape_9001);

// P9002: when_any whose first completion is done while a lagging sender produces a value
static const NodeDesc nodes_9002[] = {
  {K_WHEN_ANY, 1, 0, 2, {1, 4, 0, 0, 0}, 'E'},
  {K_LET_VALUE, 2, 0, 2, {2, 3, 0, 0, 0}, 'E'},
  {K_JUST, 3, 0, 0, {0, 0, 0, 0, 0}, 'V'},
  {K_JVOD, 4, 0, 0, {0, 0, 0, 0, 0}, 'E'},
  {K_LEAFV, 5, 0, 0, {0, 0, 0, 0, 0}, 'E'}
};
static void run_9002(const ShapeDesc& sd, RunCtl& ctl) {
  run_shape_impl<Cfg<0>>(sd, ctl, [](auto e) {
    using E = decltype(e); using T = typename E::T;
    return unifex::when_any(unifex::let_value(unifex::just(e.val(3)), [=](T& v_2) mutable { e.bind_val(2, v_2); E::call(2); return unifex::just_void_or_done(e.flag(4)); }), e.leafv(0));
  });
}
static const ShapeDesc shape_9002 = {9002, "unifex::when_any(unifex::let_value(unifex::just(e.val(3)), [=](T& v_2) mutable { ...; return unifex::just_void_or_done(e.flag(4)); }), e.leafv(0))", nodes_9002, 5, 0, 1, 0, &run_9002};
static Reg reg_9002(&shape_9002);

// P9003: any_sender_of over a leaf, receiver token is not an inplace_stop_token (witness of the known finding
// stop_source_destroyed_in_callback)
static const NodeDesc nodes_9003[] = {
  {K_ANY, 1, 0, 1, {1, 0, 0, 0, 0}, 'E'},
  {K_LEAFV, 2, 0, 0, {0, 0, 0, 0, 0}, 'E'}
};
static void run_9003(const ShapeDesc& sd, RunCtl& ctl) {
  run_shape_impl<Cfg<0>>(sd, ctl, [](auto e) { return unifex::any_sender_of<>(e.leafv(0)); });
}
static const ShapeDesc shape_9003 = {9003, "unifex::any_sender_of<>(e.leafv(0))", nodes_9003, 2, 0, 1, 0, &run_9003};
static Reg reg_9003(&shape_9003);

// P9004: let_value_with_stop_source over a leaf below finally (same known finding, in-place storage)
static const NodeDesc nodes_9004[] = {
  {K_FINALLY, 1, 0, 2, {1, 3, 0, 0, 0}, 'V'},
  {K_LVWSS, 2, 0, 1, {2, 0, 0, 0, 0}, 'V'},
  {K_LEAF, 3, 0, 0, {0, 0, 0, 0, 0}, 'V'},
  {K_LEAFV, 4, 1, 0, {0, 0, 0, 0, 0}, 'E'}
};
static void run_9004(const ShapeDesc& sd, RunCtl& ctl) {
  run_shape_impl<Cfg<1>>(sd, ctl, [](auto e) {
    return unifex::finally(unifex::let_value_with_stop_source([=](auto& ss) mutable { e.bind_ss(2, &ss); return e.leaf(0); }), e.leafv(1));
  });
}
static const ShapeDesc shape_9004 = {9004, "unifex::finally(unifex::let_value_with_stop_source([=](auto& ss) mutable { ...; return e.leaf(0); }), e.leafv(1))", nodes_9004, 4, 0, 2, 1, &run_9004};
static Reg reg_9004(&shape_9004);
}  // namespace
namespace {
using namespace ef;
// P9005: a value copy that throws below let_value -> into_variant (witness of the known finding value_copy_throw_terminates)
static const NodeDesc nodes_9005[] = {
  {K_THEN, 1, 0, 1, {1, 0, 0, 0, 0}, 'V'},
  {K_INTO_VARIANT, 2, 0, 1, {2, 0, 0, 0, 0}, 'V'},
  {K_LET_VALUE, 3, 0, 2, {3, 4, 0, 0, 0}, 'V'},
  {K_LEAF, 4, 0, 0, {0, 0, 0, 0, 0}, 'V'},
  {K_REF, 5, 3, 0, {0, 0, 0, 0, 0}, 'V'}
};
static void run_9005(const ShapeDesc& sd, RunCtl& ctl) {
  run_shape_impl<Cfg<3>>(sd, ctl, [](auto e) {
    using E = decltype(e); using T = typename E::T;
    return unifex::then(unifex::then(unifex::into_variant(unifex::let_value(e.leaf(0), [=](T& v_3) mutable { T* p_3 = &v_3; e.bind_val(3, v_3); E::call(3); return unifex::just_from([=] { return e.copy(*p_3); }); })), e.ivfn(2)), e.fn(1));
  });
}
static const ShapeDesc shape_9005 = {9005, "unifex::then(unifex::then(unifex::into_variant(unifex::let_value(e.leaf(0), [=](T& v) { return unifex::just_from([=] { return copy(v); }); })), e.ivfn(2)), e.fn(1))", nodes_9005, 5, 0, 1, 3, &run_9005};
static Reg reg_9005(&shape_9005);
}  // namespace
namespace {
using namespace ef;
// P9006: dematerialize(materialize(x)) completes with done although its traits said sends_done == false (fixed)
static const NodeDesc nodes_9006[] = {
  {K_MATDEMAT, 1, 0, 1, {1, 0, 0, 0, 0}, 'E'},
  {K_LEAFV, 2, 0, 0, {0, 0, 0, 0, 0}, 'E'}
};
static void run_9006(const ShapeDesc& sd, RunCtl& ctl) {
  run_shape_impl<Cfg<1>>(sd, ctl, [](auto e) { return unifex::dematerialize(unifex::materialize(e.leafv(0))); });
}
static const ShapeDesc shape_9006 = {9006, "unifex::dematerialize(unifex::materialize(e.leafv(0)))", nodes_9006, 2, 0, 1, 1, &run_9006};
static Reg reg_9006(&shape_9006);
}  // namespace
namespace {
using namespace ef;
// P9007: retry_when re-connects (as an lvalue) a source that contains when_all_range: the element senders must survive the first connect (fixed)
static const NodeDesc nodes_9007[] = {
  {K_RETRY_WHEN, 1, 0, 2, {1, 4, 0, 0, 0}, 'V'},
  {K_WAR, 2, 0, 2, {2, 3, 0, 0, 0}, 'V'},
  {K_LEAF, 3, 0, 0, {0, 0, 0, 0, 0}, 'V'},
  {K_LEAF, 4, 1, 0, {0, 0, 0, 0, 0}, 'V'},
  {K_LEAFV, 5, 2, 0, {0, 0, 0, 0, 0}, 'E'}
};
static void run_9007(const ShapeDesc& sd, RunCtl& ctl) {
  run_shape_impl<Cfg<0>>(sd, ctl, [](auto e) {
    using E = decltype(e);
    return unifex::retry_when(unifex::then(unifex::when_all_range(e.vec(e.leaf(0), e.leaf(1))), e.warfn(2)), [=](auto&& err) mutable { e.bind_err(1, err); E::call(1); return e.leafv(2); });
  });
}
static const ShapeDesc shape_9007 = {9007, "unifex::retry_when(unifex::then(unifex::when_all_range(e.vec(e.leaf(0), e.leaf(1))), e.warfn(2)), [=](auto&& err) { ...; return e.leafv(2); })", nodes_9007, 5, 0, 3, 0, &run_9007};
static Reg reg_9007(&shape_9007);
}  // namespace
namespace {
using namespace ef;
// P9008: let_error whose source completes with a value that the downstream receiver's set_value fails to copy (throwing move): the
// source operation must be destroyed exactly once and the failure reported through set_error (fixed)
static const NodeDesc nodes_9008[] = {
  {K_ANY, 1, 0, 1, {1, 0, 0, 0, 0}, 'V'},
  {K_LET_ERROR, 2, 0, 2, {2, 3, 0, 0, 0}, 'V'},
  {K_LEAF, 3, 0, 0, {0, 0, 0, 0, 0}, 'V'},
  {K_LEAF, 4, 1, 0, {0, 0, 0, 0, 0}, 'V'}
};
static void run_9008(const ShapeDesc& sd, RunCtl& ctl) {
  run_shape_impl<Cfg<3>>(sd, ctl, [](auto e) {
    using E = decltype(e); using T = typename E::T;
    return unifex::any_sender_of<T>(unifex::let_error(e.leaf(0), [=](auto&& err) mutable { e.bind_err(2, err); E::call(2); return e.leaf(1); }));
  });
}
static const ShapeDesc shape_9008 = {9008, "unifex::any_sender_of<T>(unifex::let_error(e.leaf(0), [=](auto&& err) { ...; return e.leaf(1); }))", nodes_9008, 4, 0, 2, 3, &run_9008};
static Reg reg_9008(&shape_9008);
}  // namespace
namespace {
using namespace ef;
// P9009: any_sender_of<> holding a schedule(s) sender directly (witness of the known finding sender_for_hijacks_type_erasure_builtins)
static const NodeDesc nodes_9009[] = {
  {K_ANY, 1, 0, 1, {1, 0, 0, 0, 0}, 'E'},
  {K_SCHEDULE, 2, 1, 0, {0, 0, 0, 0, 0}, 'E'}
};
static void run_9009(const ShapeDesc& sd, RunCtl& ctl) {
  run_shape_impl<Cfg<1>>(sd, ctl, [](auto e) { return unifex::any_sender_of<>(unifex::schedule(e.sched(1))); });
}
static const ShapeDesc shape_9009 = {9009, "unifex::any_sender_of<>(unifex::schedule(e.sched(1)))", nodes_9009, 2, 0, 0, 1, &run_9009};
static Reg reg_9009(&shape_9009);
}  // namespace
namespace {
using namespace ef;
// P9010: via over a leaf whose value has throwing moves: on every path (also when storing the value throws) the result is delivered on the scheduler's context
static const NodeDesc nodes_9010[] = {
  {K_VIA, 1, 2, 2, {1, 2, 0, 0, 0}, 'V'},
  {K_LEAF, 2, 0, 0, {0, 0, 0, 0, 0}, 'V'},
  {K_SCHEDULE, 3, 2, 0, {0, 0, 0, 0, 0}, 'E'}
};
static void run_9010(const ShapeDesc& sd, RunCtl& ctl) {
  run_shape_impl<Cfg<3>>(sd, ctl, [](auto e) { return unifex::via(e.leaf(0), e.sched(2)); });
}
static const ShapeDesc shape_9010 = {9010, "unifex::via(e.leaf(0), e.sched(2))", nodes_9010, 3, 0, 1, 3, &run_9010};
static Reg reg_9010(&shape_9010);
}  // namespace
