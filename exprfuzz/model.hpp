// Reference model: a small synchronous interpreter of shape descriptions.
// It implements only what doc/api_reference.md, the header comments and the
// property statements say about each algorithm (citations next to each rule),
// and is driven by the same event sequence as the real expression: "fire the
// pending completion of leaf L#i", "run the next item of context c",
// "request stop on the root".  It predicts the root outcome, which leaves are
// started, which of them observe a stop request, and on which context the
// result arrives.
#pragma once
#include "exprfuzz/desc.hpp"
#include "kit/sr.hpp"

#include <algorithm>
#include <map>
#include <memory>
#include <set>
#include <tuple>
#include <vector>

namespace ef {

using sr::Result;
using sr::VALUE; using sr::ERROR; using sr::DONE; using sr::NONE;

struct MListener;
struct MSource {
  bool stopped = false;
  std::vector<MListener*> ls;
  void request_stop();
};
struct MListener {
  MSource* src = nullptr; bool registered = false;
  std::function<void()> fn;
  void reg(MSource* s) {
    src = s;
    if (!s) return;
    if (s->stopped) { fn(); return; }
    s->ls.push_back(this); registered = true;
  }
  void dereg() {
    if (!registered) return;
    registered = false;
    auto& v = src->ls;
    v.erase(std::remove(v.begin(), v.end(), this), v.end());
  }
  // no deregistration on destruction: nodes are destroyed only at model teardown, in arbitrary order
};
inline void MSource::request_stop() {
  if (stopped) return;
  stopped = true;
  while (!ls.empty()) { MListener* l = ls.back(); ls.pop_back(); l->registered = false; l->fn(); }
}

struct Model;
struct MNode {
  Model* M = nullptr; const NodeDesc* d = nullptr; MNode* parent = nullptr; int slot = 0;
  MSource* tok = nullptr;   // stop token this node's receiver exposes (nullptr = unstoppable)
  int sched_ctx = -1;       // get_scheduler(receiver) as seen by this node (-1 = root's scheduler)
  long tag = 0;             // verif_tag as seen by this node
  long alloc = 1;           // id of the allocator get_allocator(receiver) yields (-1: default std::allocator)
  bool started = false, completed = false;
  std::vector<std::unique_ptr<MNode>> kids;
  virtual ~MNode() = default;
  virtual void start() = 0;
  virtual void child_done(int, Result) {}
  void finish(Result r);
  void begin();   // start(), unless this start is the candidate fault site
  MNode* make_child(int idx, int slot_);
  void start_child(MNode* c, MSource* t) { c->tok = t; c->sched_ctx = sched_ctx; c->tag = tag; c->alloc = alloc; c->started = true; c->begin(); }
};

struct PendingKey { int leaf, inst, kind; bool operator<(const PendingKey& o) const { return std::tie(leaf, inst, kind) < std::tie(o.leaf, o.inst, o.kind); } bool operator==(const PendingKey& o) const { return leaf == o.leaf && inst == o.inst && kind == o.kind; } };

struct MLeafRun { bool started = false, completed = false, stop_seen = false; int chan = NONE; int start_ctx = -1; bool tok_possible = false; int sched = -1; long tag = 0; long alloc = 1; };

struct Model {
  const ShapeDesc& sd;
  const std::vector<sr::LeafSpec>& spec;
  std::map<int, int> node_arg;
  int fault_node = -1, fault_call = -1;   // callable of node `fault_node` throws on its `fault_call`-th invocation
  bool fault_fired = false;
  bool unspecified = false;   // the documents do not define the outcome of this situation: comparisons stop
  MSource root_src; bool root_stoppable = true;
  std::unique_ptr<MNode> root;
  bool done = false; Result result; int result_ctx = -1;
  int cur_ctx = 0;
  std::map<PendingKey, std::function<void()>> pend;
  std::map<int, int> next_inst;
  std::map<std::pair<int, int>, MLeafRun> runs;
  std::map<int, int> calls;
  std::map<long, int> allocate_started;   // allocator id -> number of allocate() nodes started while that allocator was the visible one
  std::map<int, uint64_t> bound_val;  // let_value / let_value_with bound payloads by node id
  std::map<int, long> bound_err;
  std::map<int, MSource*> bound_ss;
  std::vector<std::string> log;
  std::vector<std::unique_ptr<MNode>> graveyard;   // replaced nodes may still be on the call stack
  // candidate site of an anonymous injected fault (a value copy/move, connect() or allocation that throws somewhere inside the
  // implementation): "the occ-th start of node nid fails" (mode 1: nothing below it starts, the node completes with the injected
  // error) or "the occ-th value completion of node nid is replaced by the injected error" (mode 0): what the statement
  // "the failure is reported through set_error" means for the enclosing algorithm
  int cand_nid = -1, cand_mode = 0, cand_occ = 0; bool cand_used = false;
  std::map<int, int> value_finishes, begins;

  Model(const ShapeDesc& s, const std::vector<sr::LeafSpec>& sp) : sd(s), spec(sp) {}
  std::unique_ptr<MNode> build(int idx);
  int new_inst(int leaf) { return next_inst[leaf]++; }
  // returns true when the callable of node nid throws on this call
  int stop_call_node = -1, stop_call_idx = -1;
  bool call(int nid) {
    int c = calls[nid]++;
    if (nid == stop_call_node && c == stop_call_idx) request_stop();
    if (nid == fault_node && c == fault_call) { fault_fired = true; return true; }
    return false;
  }
  void start() {
    root = build(sd.root);
    root->tok = root_stoppable ? &root_src : nullptr;
    root->sched_ctx = 7; root->tag = 424242;
    root->started = true;
    root->begin();
  }
  void request_stop() { root_src.request_stop(); }
  bool fire(int leaf, int inst, int kind, int ctx) {
    auto it = pend.find(PendingKey{leaf, inst, kind});
    if (it == pend.end()) return false;
    auto fn = std::move(it->second);
    pend.erase(it);
    int prev = cur_ctx; cur_ctx = ctx;
    fn();
    cur_ctx = prev;
    return true;
  }
  void root_done(Result r) { done = true; result = r; result_ctx = cur_ctx; }
  std::vector<PendingKey> pending() const { std::vector<PendingKey> v; for (auto& kv : pend) v.push_back(kv.first); return v; }
};

inline void MNode::begin() {
  if (M->cand_nid == d->nid && M->cand_mode == 1 && M->begins[d->nid]++ == M->cand_occ) {
    M->cand_used = true;
    Result e; e.chan = ERROR; e.err = 1000000;
    return finish(e);
  }
  // mode 2: the enclosing algorithm catches the failure of (re)connecting / starting this child and reports it to its own
  // receiver directly, without treating it as a completion of the child (retry_when: a failed re-connect is not retried)
  if (M->cand_nid == d->nid && M->cand_mode == 2 && M->begins[d->nid]++ == M->cand_occ) {
    M->cand_used = true;
    Result e; e.chan = ERROR; e.err = 1000000;
    if (parent) { parent->completed = true; if (parent->parent) return parent->parent->child_done(parent->slot, e); return M->root_done(e); }
    return finish(e);
  }
  start();
}

inline void MNode::finish(Result r) {
  if (M->cand_nid == d->nid && M->cand_mode == 0 && r.chan == VALUE && M->value_finishes[d->nid]++ == M->cand_occ) {
    M->cand_used = true;
    r = Result(); r.chan = ERROR; r.err = 1000000;
  }
  completed = true;
  if (parent) parent->child_done(slot, r); else M->root_done(r);
}

// ------------------------------------------------------------------ leaves
struct MLeaf : MNode {
  int inst = -1; MListener lis; bool pending_done = false;
  void complete(int chan, int errkind) {
    lis.dereg();
    auto& run = M->runs[{d->a, inst}];
    run.completed = true; run.chan = chan;
    Result r; r.chan = chan;
    if (chan == VALUE) r.payload = d->kind != K_LEAFV ? sr::mix(100 + (uint64_t)d->a, (uint64_t)inst) : 0;
    else if (chan == ERROR) r.err = errkind == 0 ? 2000000 + d->a * 100 + inst : 3000000 + d->a * 100 + inst;
    finish(r);
  }
  void on_stop() {
    auto& run = M->runs[{d->a, inst}];
    if (run.stop_seen) return;
    run.stop_seen = true;
    if (completed) return;
    const auto& sp = M->spec[(size_t)d->a];
    if (sp.on_stop == 1) { M->pend.erase(PendingKey{d->a, inst, 0}); complete(DONE, 0); }
    else if (sp.on_stop == 2 && !pending_done) {
      M->pend.erase(PendingKey{d->a, inst, 0});
      pending_done = true;
      M->pend[PendingKey{d->a, inst, 1}] = [this] { complete(DONE, 0); };
    }
  }
  void start() override {
    inst = M->new_inst(d->a);
    auto& run = M->runs[{d->a, inst}];
    run.started = true; run.start_ctx = M->cur_ctx; run.tok_possible = tok != nullptr; run.sched = sched_ctx; run.tag = tag; run.alloc = alloc;
    const auto& sp = M->spec[(size_t)d->a];
    const auto at = sp.at(inst);
    lis.fn = [this] { on_stop(); };
    lis.reg(tok);
    if (completed) return;
    if (sp.stop_root_in_start && inst == 0) { M->request_stop(); if (completed) return; }
    if (pending_done) return;
    if (at.timing == 0) complete(at.chan, at.errkind);
    else if (at.timing == 1) M->pend[PendingKey{d->a, inst, 0}] = [this, at] { complete(at.chan, at.errkind); };
  }
};

// schedule(HSched{ctx}): completes when the driver runs the context item; done if stop was requested by then (harness scheduler's own rule)
struct MSchedule : MNode {
  int ctx = 0;
  void start() override {
    int id = M->new_inst(900 + ctx);
    M->pend[PendingKey{900 + ctx, id, 2}] = [this] { Result r; r.chan = (tok && tok->stopped) ? DONE : VALUE; finish(r); };
  }
};

// inline leaves
struct MInline : MNode {
  void start() override {
    Result r; r.chan = VALUE;
    switch (d->kind) {
      case K_JUST: r.payload = sr::mix(7, (uint64_t)d->nid); break;                       // just(args...): set_value(args...) synchronously
      case K_JUST_FROM:                                                                      // just_from: value of callable; exception -> set_error
        if (M->call(d->nid)) { r.chan = ERROR; r.err = 1000000; } else r.payload = sr::mix((uint64_t)d->nid, 1);
        break;
      case K_JVOD: r.chan = M->node_arg[d->nid] ? VALUE : DONE; break;                      // just_void_or_done(isVoid)
      case K_SIR: r.chan = (tok && tok->stopped) ? DONE : VALUE; break;                     // stop_if_requested()
      case K_REF: r.payload = M->bound_val[d->a]; break;
      case K_ERRREF: r.payload = sr::mix(11, (uint64_t)M->bound_err[d->a]); break;
      case K_REQSTOP: { MSource* s = M->bound_ss[d->a]; if (s) s->request_stop(); if (completed) return; break; }
      default: break;
    }
    finish(r);
  }
};

// ------------------------------------------------------------------ unary value/error/done mappers
// then: "transforms the value of the predecessor by calling func(value)"; other signals pass through;
// a throwing callable -> set_error(current_exception) (C05 statement).
struct MMap : MNode {
  void start() override { start_child(kids[0].get(), child_tok()); }
  virtual MSource* child_tok() { return tok; }
  void child_done(int, Result r) override {
    int k = d->kind;
    auto thrown = [&] { Result e; e.chan = ERROR; e.err = 1000000; return e; };
    if ((k == K_THEN || k == K_E2V || k == K_V2E) && r.chan == VALUE) {
      if (M->call(d->nid)) return finish(thrown());
      Result o; o.chan = VALUE; o.payload = k == K_V2E ? 0 : sr::mix((uint64_t)d->nid, k == K_E2V ? 0 : r.payload);
      return finish(o);
    }
    if (k == K_UPON_ERROR && r.chan == ERROR) {
      if (M->call(d->nid)) return finish(thrown());
      Result o; o.chan = VALUE; o.payload = sr::mix((uint64_t)d->nid, (uint64_t)r.err); return finish(o);
    }
    if (k == K_UPON_DONE && r.chan == DONE) {
      if (M->call(d->nid)) return finish(thrown());
      Result o; o.chan = VALUE; o.payload = sr::mix((uint64_t)d->nid, 0); return finish(o);
    }
    if (k == K_DONE_AS_OPT) {  // done -> empty optional (value channel); value -> engaged optional; normalised by the following then()
      if (r.chan == DONE) { Result o; o.chan = VALUE; o.payload = sr::mix((uint64_t)d->nid, 0); return finish(o); }
      if (r.chan == VALUE) { Result o; o.chan = VALUE; o.payload = sr::mix((uint64_t)d->nid, r.payload + 1); return finish(o); }
    }
    if (k == K_INTO_VARIANT && r.chan == VALUE) { Result o; o.chan = VALUE; o.payload = sr::mix((uint64_t)d->nid, r.payload); return finish(o); }
    finish(r);  // materialize|dematerialize, any_sender_of, allocate, with_query_value, with_allocator, unstoppable: transparent
  }
};
struct MWithAlloc : MMap { void start() override { MNode* c = kids[0].get(); c->tok = tok; c->sched_ctx = sched_ctx; c->tag = tag; c->alloc = d->a; c->started = true; c->begin(); } };
// allocate(): "obtains its memory from exactly the allocator visible at that point" (C12): note which allocator a started allocate() saw
struct MAllocate : MMap { void start() override { M->allocate_started[alloc]++; MMap::start(); } };
// nest(sender, scope) in a scope that has already been joined: "work nested after the scope is closed is never started and completes with done" (C08)
struct MNestClosed : MNode { void start() override { Result r; r.chan = DONE; finish(r); } };
struct MUnstoppable : MMap { MSource* child_tok() override { return nullptr; } };  // unstoppable(): child sees unstoppable_token
struct MWithQuery : MMap { void start() override { MNode* c = kids[0].get(); c->tok = tok; c->sched_ctx = sched_ctx; c->tag = d->nid; c->alloc = alloc; c->started = true; c->begin(); } };
// any_sender_of<Ts...> declared without extra queries forwards only the stop token (adapted); scheduler, allocator and custom
// queries fall back to their defaults (type-erased wrappers forward exactly the set of queries they were declared with)
struct MAny : MMap { void start() override { MNode* c = kids[0].get(); c->tok = tok; c->sched_ctx = -1; c->tag = -1; c->alloc = -1; c->started = true; c->begin(); } };

// ------------------------------------------------------------------ let_value / let_error / let_done / defer / let_value_with
// let_value: predecessor value -> func(value&) -> successor result; done/error pass through without invoking func.
// let_error / let_done: same on the error / done channel.
struct MLet : MNode {
  void start() override {
    if (d->kind == K_DEFER) {   // defer(callable): invokes the callable when started, runs the returned sender
      if (M->call(d->nid)) { Result e; e.chan = ERROR; e.err = 1000000; return finish(e); }
      return start_child(kids[0].get(), tok);
    }
    if (d->kind == K_LVW) {     // let_value_with: state constructed at connect; successor started at start
      M->bound_val[d->nid] = sr::mix(13, (uint64_t)d->nid);
      return start_child(kids[0].get(), tok);
    }
    start_child(kids[0].get(), tok);
  }
  void child_done(int s, Result r) override {
    if (d->kind == K_DEFER || d->kind == K_LVW || s == 1) return finish(r);
    bool take = (d->kind == K_LET_VALUE && r.chan == VALUE) || (d->kind == K_LET_ERROR && r.chan == ERROR) || (d->kind == K_LET_DONE && r.chan == DONE);
    if (!take) return finish(r);
    if (d->kind == K_LET_VALUE) M->bound_val[d->nid] = r.payload;
    if (d->kind == K_LET_ERROR) M->bound_err[d->nid] = r.err;
    if (M->call(d->nid)) { Result e; e.chan = ERROR; e.err = 1000000; return finish(e); }
    if (kids[1]) M->graveyard.push_back(std::move(kids[1]));
    kids[1] = M->build(d->child[1]); kids[1]->parent = this; kids[1]->slot = 1;
    start_child(kids[1].get(), tok);
  }
};

// ------------------------------------------------------------------ finally / via / typed_via
// finally: completion sender runs after the source; if it completes with value the result is the source's,
// otherwise the completion sender's done/error.  via(source, sched) == finally(source, schedule(sched)).
struct MFinally : MNode {
  Result src;
  void start() override { start_child(kids[0].get(), tok); }
  void child_done(int s, Result r) override {
    if (s == 0) { src = r; start_child(kids[1].get(), tok); return; }
    if (r.chan == VALUE) finish(src); else finish(r);
  }
};

// on(sched, sender): schedule first; done/error of the schedule operation is the result and sender never starts;
// the sender runs with get_scheduler == sched.
struct MOn : MNode {
  void start() override { start_child(kids[0].get(), tok); }   // kids[0] = schedule, kids[1] = sender
  void child_done(int s, Result r) override {
    if (s == 1) return finish(r);
    if (r.chan != VALUE) return finish(r);
    MNode* c = kids[1].get(); c->tok = tok; c->sched_ctx = d->a; c->tag = tag; c->alloc = alloc; c->started = true; c->begin();
  }
};

// sequence: next only after the previous completed with value; done/error short-circuits.
struct MSequence : MNode {
  void start() override { start_child(kids[0].get(), tok); }
  void child_done(int s, Result r) override {
    if (s + 1 == (int)kids.size() || r.chan != VALUE) return finish(r);
    start_child(kids[(size_t)s + 1].get(), tok);
  }
};

// when_all: starts all children in turn; first done/error requests stop on the rest; completes when all have
// completed; precedence (property C05 anchor: when_all.hpp deliver_result): receiver stop > error > done > values.
struct MWhenAll : MNode {
  MSource ss; MListener up; int remaining = 0; bool done_or_error = false; bool have_err = false; long err = 0;
  std::vector<Result> vals;
  void start() override {
    remaining = (int)kids.size(); vals.resize(kids.size());
    up.fn = [this] { ss.request_stop(); };
    up.reg(tok);
    for (auto& k : kids) { if (completed) return; start_child(k.get(), &ss); }
  }
  void child_done(int s, Result r) override {
    if (r.chan == VALUE) vals[(size_t)s] = r;
    else {
      if (!done_or_error) { done_or_error = true; if (r.chan == ERROR) { have_err = true; err = r.err; } ss.request_stop(); }
    }
    if (--remaining == 0) {
      up.dereg();
      Result o;
      if (tok && tok->stopped) o.chan = DONE;
      else if (done_or_error) { if (have_err) { o.chan = ERROR; o.err = err; } else o.chan = DONE; }
      else { o.chan = VALUE; uint64_t acc = (uint64_t)d->nid; for (auto& v : vals) acc = sr::mix(acc, v.payload); o.payload = acc; }
      finish(o);
    }
  }
};

// when_all_range (no reference text; the code's own rule, which is also what C05 states: "all values or the first error/done"):
// an empty range completes at once with an empty vector; otherwise all children are started, the first child to complete
// with error or done decides the result and requests stop on the others, the result is delivered when all have completed.
struct MWhenAllRange : MNode {
  MSource ss; MListener up; int remaining = 0; bool latched = false; Result first;
  std::vector<Result> vals;
  void start() override {
    remaining = (int)kids.size(); vals.resize(kids.size());
    if (kids.empty()) { Result o; o.chan = VALUE; o.payload = (uint64_t)d->nid; return finish(o); }
    up.fn = [this] { ss.request_stop(); };
    up.reg(tok);
    for (auto& k : kids) { if (completed) return; start_child(k.get(), &ss); }
  }
  void child_done(int s, Result r) override {
    if (r.chan == VALUE) vals[(size_t)s] = r;
    else if (!latched) { latched = true; first = r; ss.request_stop(); }
    if (--remaining == 0) {
      up.dereg();
      if (latched) return finish(first);
      Result o; o.chan = VALUE; uint64_t acc = (uint64_t)d->nid; for (auto& v : vals) acc = sr::mix(acc, v.payload); o.payload = acc;
      finish(o);
    }
  }
};

// when_any: "completes when any of the input senders completes, the rest are cancelled. The result of the
// algorithm is always the completion result of the first sender to complete, even if done or error."
struct MWhenAny : MNode {
  MSource ss; MListener up; int remaining = 0; bool have = false; Result first;
  void start() override {
    remaining = (int)kids.size();
    up.fn = [this] { ss.request_stop(); };
    up.reg(tok);
    for (auto& k : kids) { if (completed) return; start_child(k.get(), &ss); }
  }
  void child_done(int, Result r) override {
    if (!have) { have = true; first = r; ss.request_stop(); }
    if (--remaining == 0) {
      up.dereg();
      // the reference text does not say what when_any yields when its own receiver's stop token fires
      if (tok && tok->stopped) M->unspecified = true;
      finish(first);
    }
  }
};

// stop_when: starts source then trigger; whichever completes first requests stop on the other;
// "Completes with the result of source once both source and trigger senders have completed."
struct MStopWhen : MNode {
  MSource ss; MListener up; int remaining = 2; Result src;
  void start() override {
    up.fn = [this] { ss.request_stop(); };
    up.reg(tok);
    if (completed) return;
    start_child(kids[0].get(), &ss);
    if (completed) return;
    start_child(kids[1].get(), &ss);
  }
  void child_done(int s, Result r) override {
    if (s == 0) src = r;
    ss.request_stop();
    if (--remaining == 0) { up.dereg(); finish(src); }
  }
};

// retry_when: value/done of source -> result; error -> handler(error) sender; its value -> relaunch source,
// its done/error -> result; a throwing handler -> set_error.
struct MRetry : MNode {
  void start() override { launch(); }
  void launch() { if (kids[0]) M->graveyard.push_back(std::move(kids[0])); kids[0] = M->build(d->child[0]); kids[0]->parent = this; kids[0]->slot = 0; start_child(kids[0].get(), tok); }
  void child_done(int s, Result r) override {
    if (s == 0) {
      if (r.chan != ERROR) return finish(r);
      M->bound_err[d->nid] = r.err;
      if (M->call(d->nid)) { Result e; e.chan = ERROR; e.err = 1000000; return finish(e); }
      if (kids[1]) M->graveyard.push_back(std::move(kids[1]));
      kids[1] = M->build(d->child[1]); kids[1]->parent = this; kids[1]->slot = 1;
      start_child(kids[1].get(), tok);
    } else {
      if (r.chan == VALUE) return launch();
      finish(r);
    }
  }
};

// repeat_effect_until: done/error of source -> result; value -> predicate(); true -> value, false -> repeat;
// a throwing predicate -> set_error.
struct MRepeat : MNode {
  void start() override { launch(); }
  void launch() { if (kids[0]) M->graveyard.push_back(std::move(kids[0])); kids[0] = M->build(d->child[0]); kids[0]->parent = this; kids[0]->slot = 0; start_child(kids[0].get(), tok); }
  void child_done(int, Result r) override {
    if (r.chan != VALUE) return finish(r);
    bool thrown = M->call(d->nid);
    if (thrown) { Result e; e.chan = ERROR; e.err = 1000000; return finish(e); }
    if (M->calls[d->nid] >= M->node_arg[d->nid]) { Result o; o.chan = VALUE; return finish(o); }
    launch();
  }
};

// let_value_with_stop_source: a stop source alive for the successor; stopped by the user (REQSTOP nodes) or by the
// parent's token ("cancellation may also be requested through the stop-token of the receiver").
struct MLvwss : MNode {
  MSource ss; MListener up;
  void start() override {
    M->bound_ss[d->nid] = &ss;
    up.fn = [this] { ss.request_stop(); };
    up.reg(tok);
    if (completed) return;
    start_child(kids[0].get(), &ss);
  }
  void child_done(int, Result r) override { up.dereg(); finish(r); }
};

// variant_sender chosen at run time through defer: behaves as the chosen alternative
struct MVariant : MNode {
  void start() override {
    int which = M->node_arg[d->nid] ? 1 : 0;
    start_child(kids[(size_t)which].get(), tok);
  }
  void child_done(int, Result r) override { finish(r); }
};

inline std::unique_ptr<MNode> Model::build(int idx) {
  const NodeDesc* d = &sd.nodes[idx];
  std::unique_ptr<MNode> n;
  switch (d->kind) {
    case K_LEAF: case K_LEAFV: case K_LEAF_AI: case K_LEAF_ND: n.reset(new MLeaf()); break;
    case K_SCHEDULE: { auto* s = new MSchedule(); s->ctx = d->a; n.reset(s); break; }
    case K_JUST: case K_JUST_FROM: case K_JVOD: case K_SIR: case K_REF: case K_ERRREF: case K_REQSTOP: n.reset(new MInline()); break;
    case K_THEN: case K_E2V: case K_V2E: case K_UPON_ERROR: case K_UPON_DONE: case K_MATDEMAT: case K_DONE_AS_OPT:
    case K_INTO_VARIANT: case K_LVWST: case K_NEST: n.reset(new MMap()); break;
    case K_ALLOCATE: n.reset(new MAllocate()); break;
    case K_WITH_ALLOC: n.reset(new MWithAlloc()); break;
    case K_NEST_CLOSED: n.reset(new MNestClosed()); break;
    case K_WAR: n.reset(new MWhenAllRange()); break;
    case K_ANY: n.reset(new MAny()); break;
    case K_WITH_QUERY: n.reset(new MWithQuery()); break;
    case K_UNSTOPPABLE: n.reset(new MUnstoppable()); break;
    case K_LET_VALUE: case K_LET_ERROR: case K_LET_DONE: case K_DEFER: case K_LVW: n.reset(new MLet()); break;
    case K_FINALLY: case K_VIA: case K_TYPED_VIA: n.reset(new MFinally()); break;
    case K_ON: n.reset(new MOn()); break;
    case K_SEQUENCE: n.reset(new MSequence()); break;
    case K_WHEN_ALL: n.reset(new MWhenAll()); break;
    case K_WHEN_ANY: n.reset(new MWhenAny()); break;
    case K_STOP_WHEN: n.reset(new MStopWhen()); break;
    case K_RETRY_WHEN: n.reset(new MRetry()); break;
    case K_REPEAT: n.reset(new MRepeat()); break;
    case K_LVWSS: n.reset(new MLvwss()); break;
    case K_VARIANT: n.reset(new MVariant()); break;
    default: n.reset(new MMap()); break;
  }
  n->M = this; n->d = d;
  // children that are (re)built lazily: successors of let_* (slot 1), retry/repeat bodies
  bool lazy_all = d->kind == K_RETRY_WHEN || d->kind == K_REPEAT;
  n->kids.resize((size_t)d->nchild);
  for (int i = 0; i < d->nchild; ++i) {
    bool lazy = lazy_all || ((d->kind == K_LET_VALUE || d->kind == K_LET_ERROR || d->kind == K_LET_DONE) && i == 1);
    if (lazy) continue;
    n->kids[(size_t)i] = build(d->child[i]);
    n->kids[(size_t)i]->parent = n.get();
    n->kids[(size_t)i]->slot = i;
  }
  return n;
}

}  // namespace ef
