#!/usr/bin/env python3
"""Generates the static shape catalogue for exprfuzz.

usage: gen_shapes.py --seed S --count N --out DIR [--per-tu K] [--max-depth D] [--kinds k1,k2,...] [--prefix P]

Every shape is emitted as (a) a C++ expression nesting the real libunifex
adaptors directly (so the real in-place operation-state nesting is exercised)
and (b) a node table that the reference model interprets.  Shapes are chosen by
a covering criterion: the generator keeps drawing random trees and prefers
those that add unseen (parent kind, child slot, child kind) pairs.
Type constraints (void predecessors for sequence, void completion for finally,
copyable sources for retry/repeat, ...) are enforced by construction."""
import argparse, os, random, sys

V, E = 'V', 'E'

KINDS = ["K_LEAF", "K_LEAFV", "K_JUST", "K_JUST_FROM", "K_JVOD", "K_SIR", "K_SCHEDULE", "K_REF", "K_ERRREF", "K_REQSTOP",
         "K_THEN", "K_E2V", "K_V2E", "K_UPON_ERROR", "K_UPON_DONE", "K_LET_VALUE", "K_LET_ERROR", "K_LET_DONE", "K_FINALLY",
         "K_VIA", "K_TYPED_VIA", "K_ON", "K_SEQUENCE", "K_WHEN_ALL", "K_WHEN_ANY", "K_STOP_WHEN", "K_UNSTOPPABLE", "K_MATDEMAT",
         "K_DONE_AS_OPT", "K_RETRY_WHEN", "K_REPEAT", "K_LVWSS", "K_LVWST", "K_LVW", "K_ANY", "K_ALLOCATE", "K_DEFER",
         "K_INTO_VARIANT", "K_WITH_QUERY", "K_WITH_ALLOC", "K_VARIANT", "K_LEAF_AI", "K_LEAF_ND",
         "K_WAR", "K_NEST", "K_NEST_CLOSED"]


class Node:
    def __init__(self, kind, vt, children=(), a=0, hidden=False):
        self.kind, self.vt, self.children, self.a = kind, vt, list(children), a
        self.nid = -1
        self.hidden = hidden  # exists only in the model table (e.g. the schedule() inside via/on)


class Gen:
    def __init__(self, rng, max_depth, max_leaves, allowed):
        self.rng, self.max_depth, self.max_leaves, self.allowed = rng, max_depth, max_leaves, allowed
        self.leaves = 0
        self.nodes = 0
        self.force = {}      # depth -> kind that must be used at the first node generated at that depth

    def ok(self, k):
        return self.allowed is None or k in self.allowed

    def leaf(self, vt, ctx):
        r = self.rng
        opts = []
        if vt == V:
            opts += [("K_LEAF", 10), ("K_JUST", 2), ("K_JUST_FROM", 1), ("K_LEAF_AI", 2), ("K_LEAF_ND", 2)]
            if ctx.get("let"): opts.append(("K_REF", 4))
            if ctx.get("err"): opts.append(("K_ERRREF", 4))
        else:
            opts += [("K_LEAFV", 10), ("K_JVOD", 2), ("K_SIR", 1), ("K_SCHEDULE", 2)]
            if ctx.get("ss"): opts.append(("K_REQSTOP", 5))
        if self.leaves >= self.max_leaves:
            opts = [o for o in opts if o[0] not in ("K_LEAF", "K_LEAFV", "K_LEAF_AI", "K_LEAF_ND")] or opts
        opts = [o for o in opts if self.ok(o[0])] or [("K_LEAF" if vt == V else "K_LEAFV", 1)]
        k = r.choices([o[0] for o in opts], [o[1] for o in opts])[0]
        if k in ("K_LEAF", "K_LEAFV", "K_LEAF_AI", "K_LEAF_ND"):
            n = Node(k, vt, a=self.leaves); self.leaves += 1; return n
        if k == "K_SCHEDULE": return Node(k, vt, a=r.randrange(1, 4))
        if k == "K_REF": return Node(k, vt, a=("let", r.choice(ctx["let"])))
        if k == "K_ERRREF": return Node(k, vt, a=("err", r.choice(ctx["err"])))
        if k == "K_REQSTOP": return Node(k, vt, a=("ss", r.choice(ctx["ss"])))
        return Node(k, vt)

    @staticmethod
    def can_error(n):
        if n.kind in ("K_JUST", "K_JVOD", "K_SIR", "K_SCHEDULE", "K_ERRREF"):
            return False
        if n.kind in ("K_UNSTOPPABLE", "K_ALLOCATE", "K_WITH_QUERY", "K_WITH_ALLOC", "K_NEST", "K_MATDEMAT", "K_LVWST", "K_LVWSS", "K_LVW", "K_DEFER"):
            return Gen.can_error(n.children[-1])
        if n.kind in ("K_VIA", "K_TYPED_VIA", "K_FINALLY", "K_STOP_WHEN"):
            return Gen.can_error(n.children[0])
        if n.kind == "K_ON":
            return Gen.can_error(n.children[1])
        if n.kind == "K_SEQUENCE":
            return any(Gen.can_error(c) for c in n.children)
        return True

    def gen_err(self, vt, depth, ctx):
        """a child whose sender type can complete with an error (adaptors that consume errors need one to compile)"""
        for _ in range(6):
            n = self.gen(vt, depth, ctx)
            if self.can_error(n):
                return n
        n = Node("K_LEAF" if vt == V else "K_LEAFV", vt, a=self.leaves); self.leaves += 1
        return n

    def gen(self, vt, depth, ctx):
        """ctx: dict(let=[nodes], err=[nodes], ss=[nodes], copyable=bool)"""
        r = self.rng
        self.nodes += 1
        if depth not in self.force and (depth >= self.max_depth or self.nodes > 16 or r.random() < 0.18 + 0.1 * depth):
            return self.leaf(vt, ctx)
        cp = ctx.get("copyable", False)
        if vt == V:
            opts = [("K_THEN", 5), ("K_E2V", 2), ("K_UPON_ERROR", 3), ("K_UPON_DONE", 3), ("K_LET_VALUE", 4), ("K_LET_ERROR", 3), ("K_LET_DONE", 3),
                    ("K_FINALLY", 4), ("K_VIA", 3), ("K_TYPED_VIA", 2), ("K_ON", 3), ("K_SEQUENCE", 3), ("K_WHEN_ALL", 6), ("K_WHEN_ANY", 3),
                    ("K_STOP_WHEN", 4), ("K_UNSTOPPABLE", 2), ("K_MATDEMAT", 3), ("K_DONE_AS_OPT", 2), ("K_RETRY_WHEN", 3), ("K_LVWSS", 3),
                    ("K_LVWST", 1), ("K_LVW", 2), ("K_ANY", 3), ("K_ALLOCATE", 2), ("K_DEFER", 2), ("K_INTO_VARIANT", 1), ("K_WITH_QUERY", 2),
                    ("K_WAR", 3), ("K_NEST", 2), ("K_NEST_CLOSED", 1), ("K_WITH_ALLOC", 2)]
        else:
            opts = [("K_V2E", 4), ("K_LET_VALUE", 2), ("K_LET_ERROR", 2), ("K_LET_DONE", 2), ("K_FINALLY", 3), ("K_VIA", 2), ("K_ON", 2), ("K_SEQUENCE", 4),
                    ("K_WHEN_ANY", 2), ("K_STOP_WHEN", 3), ("K_UNSTOPPABLE", 1), ("K_MATDEMAT", 2), ("K_RETRY_WHEN", 2), ("K_REPEAT", 4), ("K_LVWSS", 2),
                    ("K_ANY", 2), ("K_ALLOCATE", 1), ("K_DEFER", 1), ("K_WITH_QUERY", 1), ("K_NEST", 1), ("K_NEST_CLOSED", 1), ("K_WITH_ALLOC", 1)]
        if cp:
            # not lvalue-connectable (or not copyable) in this library version
            opts = [o for o in opts if o[0] not in ("K_ANY", "K_WHEN_ANY", "K_LVWSS", "K_LVWST", "K_LVW", "K_ALLOCATE", "K_LET_ERROR", "K_LET_DONE", "K_UPON_DONE")]
        opts = [o for o in opts if self.ok(o[0])]
        if not opts:
            return self.leaf(vt, ctx)
        k = r.choices([o[0] for o in opts], [o[1] for o in opts])[0]
        if depth in self.force:
            fk = self.force.pop(depth)
            if fk in [o[0] for o in opts]:
                k = fk
        d = depth + 1
        sub = lambda t, c=ctx: self.gen(t, d, c)
        if k == "K_UPON_ERROR":
            return Node(k, V, [self.gen_err(V, d, ctx)])
        if k in ("K_THEN", "K_UPON_DONE", "K_DONE_AS_OPT", "K_INTO_VARIANT"):
            return Node(k, V, [sub(V)])
        if k == "K_E2V": return Node(k, V, [sub(E)])
        if k == "K_V2E": return Node(k, E, [sub(V)])
        if k == "K_ANY":
            # KNOWN FINDING sender_for_hijacks_type_erasure_builtins: any_sender_of holding schedule(s) directly (the witness is the
            # pinned shape 9009) -- excluded by construction
            ch = sub(vt)
            if ch.kind == "K_SCHEDULE":
                ch = Node("K_LEAFV", E, a=self.leaves); self.leaves += 1
            return Node(k, vt, [ch])
        if k in ("K_UNSTOPPABLE", "K_MATDEMAT", "K_ALLOCATE", "K_WITH_QUERY", "K_LVWST"):
            return Node(k, vt, [sub(vt)])
        if k in ("K_NEST", "K_NEST_CLOSED"):
            # nest_sender's const& connect overload is probed during overload resolution and instantiates the child's
            # const& connect, which is a hard error for the adaptors that are not lvalue-connectable
            c1 = dict(ctx); c1["copyable"] = True
            return Node(k, vt, [self.gen(vt, d, c1)])
        if k == "K_WITH_ALLOC":
            return Node(k, vt, [sub(vt)], a=r.randrange(2, 4))
        if k == "K_WAR":
            # when_all_range takes a vector of senders of ONE type: n harness leaves, all wrapped the same way
            n = r.choice([0, 1, 2, 2, 3, 3])
            wrap = r.choice([None, None, "K_THEN", "K_UNSTOPPABLE", "K_MATDEMAT", "K_WITH_QUERY", "K_JUST"])
            if getattr(self, "war_flavour", 0):
                wrap = self.war_flavour; n = max(n, 1)
            kids = []
            for _ in range(n):
                if wrap == "K_JUST":
                    kids.append(Node("K_JUST", V)); continue
                lf = Node("K_LEAF", V, a=self.leaves); self.leaves += 1
                kids.append(lf if wrap is None else Node(wrap, V, [lf]))
            return Node(k, V, kids, a=0 if wrap is None else KINDS.index(wrap))
        if k == "K_LET_VALUE":
            n = Node(k, vt)
            c2 = dict(ctx); c2["let"] = ctx.get("let", []) + [n]
            n.children = [sub(V), self.gen(vt, d, c2)]
            return n
        if k == "K_LVW":
            n = Node(k, vt)
            c2 = dict(ctx); c2["let"] = ctx.get("let", []) + [n]
            n.children = [self.gen(vt, d, c2)]
            return n
        if k == "K_LET_ERROR":
            n = Node(k, vt)
            c2 = dict(ctx); c2["err"] = ctx.get("err", []) + [n]
            n.children = [self.gen_err(vt, d, ctx), self.gen(vt, d, c2)]
            return n
        if k == "K_LET_DONE":
            return Node(k, vt, [sub(vt), sub(vt)])
        if k == "K_FINALLY": return Node(k, vt, [sub(vt), sub(E)])
        if k in ("K_VIA", "K_TYPED_VIA"):
            a = r.randrange(1, 4)
            return Node(k, vt, [sub(vt), Node("K_SCHEDULE", E, a=a, hidden=True)], a=a)
        if k == "K_ON":
            a = r.randrange(1, 4)
            return Node(k, vt, [Node("K_SCHEDULE", E, a=a, hidden=True), sub(vt)], a=a)
        if k == "K_SEQUENCE":
            npred = r.randrange(1, 3)
            return Node(k, vt, [sub(E) for _ in range(npred)] + [sub(vt)])
        if k == "K_WHEN_ALL":
            n = r.randrange(2, 4)
            return Node(k, V, [sub(r.choice([V, V, E])) for _ in range(n)])
        if k == "K_WHEN_ANY":
            n = r.randrange(2, 4)
            return Node(k, vt, [sub(vt) for _ in range(n)])
        # stop_when's result storage has no slot for exception_ptr unless the source declares it: a source without error types
        # (schedule(), just()) does not compile there (library limitation at compile time, no runtime behaviour involved)
        if k == "K_STOP_WHEN": return Node(k, vt, [self.gen_err(vt, d, ctx), sub(E)])
        if k == "K_RETRY_WHEN":
            n = Node(k, vt)
            c1 = dict(ctx); c1["copyable"] = True
            c2 = dict(ctx); c2["err"] = ctx.get("err", []) + [n]
            # the trigger is an effect; it may not refer to the error (ERRREF produces a value)
            n.children = [self.gen_err(vt, d, c1), self.gen(E, d, c2)]
            return n
        if k == "K_REPEAT":
            c1 = dict(ctx); c1["copyable"] = True
            return Node(k, E, [self.gen(E, d, c1)])
        if k == "K_LVWSS":
            n = Node(k, vt)
            c2 = dict(ctx); c2["ss"] = ctx.get("ss", []) + [n]
            n.children = [self.gen(vt, d, c2)]
            return n
        if k == "K_DEFER": return Node(k, vt, [sub(vt)])
        raise AssertionError(k)


def number(root):
    order = []
    def walk(n):
        n.nid = len(order) + 1
        order.append(n)
        for c in n.children: walk(c)
    walk(root)
    return order


def cpp(n):
    k, nid = n.kind, n.nid
    c = [cpp(x) for x in n.children if not x.hidden]
    ref = lambda: n.a[1].nid
    if k == "K_LEAF": return "e.leaf(%d)" % n.a
    if k == "K_LEAFV": return "e.leafv(%d)" % n.a
    if k == "K_LEAF_AI": return "e.leaf_ai(%d)" % n.a
    if k == "K_LEAF_ND": return "e.leaf_nd(%d)" % n.a
    if k == "K_JUST": return "unifex::just(e.val(%d))" % nid
    if k == "K_JUST_FROM": return "unifex::just_from(e.jf(%d))" % nid
    if k == "K_JVOD": return "unifex::just_void_or_done(e.flag(%d))" % nid
    if k == "K_SIR": return "unifex::stop_if_requested()"
    if k == "K_SCHEDULE": return "unifex::schedule(e.sched(%d))" % n.a
    if k == "K_REF": return "unifex::just_from([=] { return e.copy(*p_%d); })" % ref()
    if k == "K_ERRREF": return "unifex::just(e.errval(%d))" % ref()
    if k == "K_REQSTOP": return "unifex::just_from([=] { e.req_ss(%d); })" % ref()
    if k == "K_THEN": return "unifex::then(%s, e.fn(%d))" % (c[0], nid)
    if k == "K_E2V": return "unifex::then(%s, e.vfn(%d))" % (c[0], nid)
    if k == "K_V2E": return "unifex::then(%s, e.sink(%d))" % (c[0], nid)
    if k == "K_UPON_ERROR": return "unifex::upon_error(%s, e.efn(%d))" % (c[0], nid)
    if k == "K_UPON_DONE": return "unifex::upon_done(%s, e.dfn(%d))" % (c[0], nid)
    if k == "K_LET_VALUE": return "unifex::let_value(%s, [=](T& v_%d) mutable { T* p_%d = &v_%d; (void)p_%d; e.bind_val(%d, v_%d); E::call(%d); return %s; })" % (c[0], nid, nid, nid, nid, nid, nid, nid, c[1])
    if k == "K_LET_ERROR": return "unifex::let_error(%s, [=](auto&& err) mutable { e.bind_err(%d, err); E::call(%d); return %s; })" % (c[0], nid, nid, c[1])
    if k == "K_LET_DONE": return "unifex::let_done(%s, [=]() mutable { E::call(%d); return %s; })" % (c[0], nid, c[1])
    if k == "K_FINALLY": return "unifex::finally(%s, %s)" % (c[0], c[1])
    if k == "K_VIA": return "unifex::via(%s, e.sched(%d))" % (c[0], n.a)
    if k == "K_TYPED_VIA": return "unifex::typed_via(%s, e.sched(%d))" % (c[0], n.a)
    if k == "K_ON": return "unifex::on(e.sched(%d), %s)" % (n.a, c[0])
    if k == "K_SEQUENCE": return "unifex::sequence(%s)" % ", ".join(c)
    if k == "K_WHEN_ALL": return "unifex::then(unifex::when_all(%s), e.wafn(%d))" % (", ".join(c), nid)
    if k == "K_WHEN_ANY": return "unifex::when_any(%s)" % ", ".join(c)
    if k == "K_STOP_WHEN": return "unifex::stop_when(%s, %s)" % (c[0], c[1])
    if k == "K_UNSTOPPABLE": return "unifex::unstoppable(%s)" % c[0]
    if k == "K_MATDEMAT": return "unifex::dematerialize(unifex::materialize(%s))" % c[0]
    if k == "K_DONE_AS_OPT": return "unifex::then(unifex::done_as_optional(%s), e.optfn(%d))" % (c[0], nid)
    if k == "K_RETRY_WHEN": return "unifex::retry_when(%s, [=](auto&& err) mutable { e.bind_err(%d, err); E::call(%d); return %s; })" % (c[0], nid, nid, c[1])
    if k == "K_REPEAT": return "unifex::repeat_effect_until(%s, e.pred(%d))" % (c[0], nid)
    if k == "K_LVWSS": return "unifex::let_value_with_stop_source([=](auto& ss) mutable { e.bind_ss(%d, &ss); return %s; })" % (nid, c[0])
    if k == "K_LVWST": return "unifex::let_value_with_stop_token([=](unifex::inplace_stop_token) mutable { return %s; })" % c[0]
    if k == "K_LVW": return "unifex::let_value_with([=] { return e.lvw_state(%d); }, [=](T& v_%d) mutable { T* p_%d = &v_%d; (void)p_%d; e.bind_val(%d, v_%d); return %s; })" % (nid, nid, nid, nid, nid, nid, nid, c[0])
    if k == "K_ANY": return ("unifex::any_sender_of<T>(%s)" if n.vt == V else "unifex::any_sender_of<>(%s)") % c[0]
    if k == "K_ALLOCATE": return "unifex::allocate(%s)" % c[0]
    if k == "K_DEFER": return "unifex::defer([=]() mutable { E::call(%d); return %s; })" % (nid, c[0])
    if k == "K_INTO_VARIANT": return "unifex::then(unifex::into_variant(%s), e.ivfn(%d))" % (c[0], nid)
    if k == "K_WITH_QUERY": return "unifex::with_query_value(%s, sr::verif_tag, sr::QVal(%d))" % (c[0], nid)
    if k == "K_WITH_ALLOC": return "unifex::with_allocator(%s, e.alloc(%d))" % (c[0], n.a)
    if k == "K_NEST": return "unifex::nest(%s, e.scope())" % c[0]
    if k == "K_NEST_CLOSED": return "unifex::nest(%s, e.closed_scope())" % c[0]
    if k == "K_WAR":
        if not c: return "unifex::then(unifex::when_all_range(e.vec0()), e.warfn(%d))" % nid
        return "unifex::then(unifex::when_all_range(e.vec(%s)), e.warfn(%d))" % (", ".join(c), nid)
    raise AssertionError(k)


def pairs(root):
    s = set()
    def walk(n):
        for i, c in enumerate(n.children):
            s.add((n.kind, min(i, 2), c.kind))
            walk(c)
    walk(root)
    s.add(("ROOT", 0, root.kind))
    return s


def main():
    ap = argparse.ArgumentParser()
    ap.add_argument("--seed", type=int, default=1)
    ap.add_argument("--count", type=int, default=120)
    ap.add_argument("--out", required=True)
    ap.add_argument("--per-tu", type=int, default=8)
    ap.add_argument("--max-depth", type=int, default=4)
    ap.add_argument("--kinds", default="")
    ap.add_argument("--exclude", default="")
    ap.add_argument("--prefix", default="shapes")
    ap.add_argument("--cfgs", default="0,1,2,3")
    ap.add_argument("--no-targeted", action="store_true")
    a = ap.parse_args()
    rng = random.Random(a.seed)
    allowed = set(a.kinds.split(",")) if a.kinds else None
    if a.exclude:
        allowed = set(KINDS) if allowed is None else allowed
        allowed -= set(a.exclude.split(","))
    cfgs = [int(x) for x in a.cfgs.split(",")]
    shapes, seen, texts = [], set(), set()
    tries = 0
    while len(shapes) < a.count and tries < a.count * 400:
        tries += 1
        g = Gen(rng, rng.choice([2, 3, 3, a.max_depth, a.max_depth]), 6, allowed)
        root = g.gen(rng.choice([V, V, V, E]), 0, {})
        order = number(root)
        if len(order) < 2 or g.leaves == 0 and rng.random() < 0.8:
            continue
        text = cpp(root)
        if text in texts or len(text) > 1500:
            continue
        p = pairs(root)
        new = p - seen
        # covering criterion: always accept shapes adding unseen pairs; accept others with decreasing probability
        if not new and rng.random() > 0.15:
            continue
        seen |= p
        texts.add(text)
        shapes.append((root, order, text, g.leaves))
    # targeted shapes: each adaptor that can be re-connected (lvalue connect) directly below retry_when / repeat_effect_until
    relaunchable_v = ["K_THEN", "K_E2V", "K_UPON_ERROR", "K_LET_VALUE", "K_FINALLY", "K_VIA", "K_ON", "K_SEQUENCE", "K_WHEN_ALL", "K_STOP_WHEN",
                      "K_UNSTOPPABLE", "K_MATDEMAT", "K_DONE_AS_OPT", "K_RETRY_WHEN", "K_DEFER", "K_INTO_VARIANT", "K_WITH_QUERY", "K_WAR", "K_NEST",
                      "K_WITH_ALLOC"]
    relaunchable_e = ["K_V2E", "K_LET_VALUE", "K_FINALLY", "K_VIA", "K_ON", "K_SEQUENCE", "K_STOP_WHEN", "K_UNSTOPPABLE", "K_MATDEMAT", "K_REPEAT", "K_DEFER", "K_WITH_QUERY", "K_NEST",
                      "K_WITH_ALLOC"]
    relaunch_list = [] if a.no_targeted else [("K_RETRY_WHEN", V, k, None) for k in relaunchable_v] + [("K_REPEAT", E, k, None) for k in relaunchable_e] + \
        [("K_RETRY_WHEN", V, "K_WAR", fl) for fl in ("K_WITH_QUERY", "K_JUST", "K_THEN")]   # element senders that are sensitive to being moved from
    for root_kind, vt0, k, flavour in relaunch_list:
        if True:
            if allowed is not None and (k not in allowed or root_kind not in allowed):
                continue
            for attempt in range(30):
                g = Gen(rng, 3, 6, allowed)
                g.war_flavour = flavour
                g.force = {0: root_kind, 1: k}
                root = g.gen(vt0, 0, {})
                if root.kind != root_kind or not root.children or root.children[0].kind != k or g.leaves == 0:
                    continue
                order = number(root)
                text = cpp(root)
                if text in texts or len(text) > 1500:
                    continue
                texts.add(text); seen |= pairs(root)
                shapes.append((root, order, text, g.leaves))
                break
    # targeted shapes (scheduler-affinity trait): every adaptor at the root with exactly one child that can complete on another
    # context (a harness leaf) while every other child is statically scheduler-affine (just / just_void_or_done / always-inline leaf),
    # once per child position: a trait computed from the wrong subset of children then claims affinity for an operation that hops
    hop = ("K_LEAF", "K_LEAFV", "K_LEAF_ND")
    aff = ("K_JUST", "K_JVOD", "K_LEAF_AI")
    got = set()
    for k in ([] if a.no_targeted else KINDS):
        if k in hop or k in aff or k in ("K_JUST_FROM", "K_SIR", "K_SCHEDULE", "K_REF", "K_ERRREF", "K_REQSTOP", "K_VARIANT", "K_WITH_ALLOC"):
            continue
        if allowed is not None and k not in allowed:
            continue
        for vt0 in (V, E):
            for attempt in range(120):
                g = Gen(rng, 1, 6, set([k]) | set(hop) | set(aff))
                g.force = {0: k}
                try:
                    root = g.gen(vt0, 0, {})
                except Exception:
                    break
                if root.kind != k:
                    break
                kids = [c for c in root.children if not c.hidden]
                hops = [i for i, c in enumerate(kids) if c.kind in hop]
                if len(hops) != 1 or any(c.kind not in hop + aff for c in kids):
                    continue
                key = (k, vt0, len(kids), hops[0])
                if key in got:
                    continue
                order = number(root)
                text = cpp(root)
                if text in texts or len(text) > 1500:
                    got.add(key); continue
                got.add(key); texts.add(text); seen |= pairs(root)
                shapes.append((root, order, text, g.leaves))
    os.makedirs(a.out, exist_ok=True)
    for f in os.listdir(a.out):
        if f.startswith(a.prefix + "_") and f.endswith(".cpp"):
            os.unlink(os.path.join(a.out, f))
    ntu = (len(shapes) + a.per_tu - 1) // a.per_tu
    files = []
    for t in range(ntu):
        lines = ['// generated by exprfuzz/gen_shapes.py --seed %d ; do not edit' % a.seed, '#include "exprfuzz/runner.hpp"', 'namespace {', 'using namespace ef;']
        for si in range(t * a.per_tu, min(len(shapes), (t + 1) * a.per_tu)):
            root, order, text, nleaves = shapes[si]
            cfg = cfgs[si % len(cfgs)]
            idx = {id(n): i for i, n in enumerate(order)}
            rows = []
            for n in order:
                aval = n.a[1].nid if isinstance(n.a, tuple) else n.a
                ch = [idx[id(c)] for c in n.children] + [0] * (5 - len(n.children))
                rows.append("  {%s, %d, %d, %d, {%s}, '%s'}" % (n.kind, n.nid, aval, len(n.children), ", ".join(map(str, ch)), n.vt))
            esc = text.replace("\\", "\\\\").replace('"', '\\"')
            lines.append("static const NodeDesc nodes_%d[] = {\n%s\n};" % (si, ",\n".join(rows)))
            lines.append("static void run_%d(const ShapeDesc& sd, RunCtl& ctl) {\n  run_shape_impl<Cfg<%d>>(sd, ctl, [](auto e) {\n    using E = decltype(e); using T = typename E::T; (void)sizeof(T);\n    return %s;\n  });\n}" % (si, cfg, text))
            lines.append('static const ShapeDesc shape_%d = {%d, "%s", nodes_%d, %d, 0, %d, %d, &run_%d};' % (si, si, esc, si, len(order), nleaves, cfg, si))
            lines.append("static Reg reg_%d(&shape_%d);" % (si, si))
        lines.append("}  // namespace")
        fn = os.path.join(a.out, "%s_%03d.cpp" % (a.prefix, t))
        open(fn, "w").write("\n".join(lines) + "\n")
        files.append(fn)
    kinds_used = sorted(set(n.kind for s in shapes for n in s[1]))
    sys.stderr.write("generated %d shapes in %d TUs, %d distinct (parent,slot,child) pairs, kinds: %s\n" % (len(shapes), ntu, len(seen), " ".join(kinds_used)))
    print("\n".join(files))


if __name__ == "__main__":
    main()
