// Decoding of a per-case plan (leaf behaviours, stop timing, faults, poison) for a shape.  Shared by the
// sequential (exprfuzz) and the schedule-controlled (exprfuzz_mt) harness.
#pragma once
#include "exprfuzz/runner.hpp"

namespace ef {

inline bool known(const char* sig) {
  std::string k = "," + vk::ctx().arg("known") + ",";
  return k.find(std::string(",") + sig + ",") != std::string::npos;
}

// KNOWN FINDING value_copy_throw_terminates: shapes in which a throwing copy/move of the value can run inside one of the
// internal receivers whose set_value is declared noexcept unconditionally (then std::terminate instead of set_error).
// Determined by survey (every shape of several catalogues run with throwing copies): the shapes containing one of these adaptors.
inline bool copy_throw_terminates_class(const ShapeDesc& sd) {
  for (int i = 0; i < sd.nnodes; ++i) switch (sd.nodes[i].kind) {
    case K_LET_VALUE: case K_LVW: return true;
    default: break;
  }
  return false;
}

// ------------------------------------------------------------------ decode a plan for a shape

inline Plan decode_plan(const ShapeDesc& sd, vk::Choice& c) {
  Plan p;
  p.spec.resize((size_t)sd.nleaves);
  // which leaves sit below a retry_when source (their last attempt must not be an error, or the case would not terminate)
  std::vector<bool> under_retry((size_t)sd.nleaves, false), unstoppable((size_t)sd.nleaves, false), embedded_src((size_t)sd.nleaves, false);
  std::vector<int> leaf_kind((size_t)sd.nleaves, 0);
  std::function<void(int, bool, bool, bool)> walk = [&](int idx, bool ur, bool us, bool es) {
    const NodeDesc& n = sd.nodes[idx];
    if (n.kind == K_LEAF_AI) leaf_kind[(size_t)n.a] = 1;
    if (n.kind == K_LEAF_ND) leaf_kind[(size_t)n.a] = 2;
    if (n.kind == K_LEAF || n.kind == K_LEAFV || n.kind == K_LEAF_AI || n.kind == K_LEAF_ND) { under_retry[(size_t)n.a] = under_retry[(size_t)n.a] || ur; unstoppable[(size_t)n.a] = unstoppable[(size_t)n.a] || us; embedded_src[(size_t)n.a] = embedded_src[(size_t)n.a] || es; }
    for (int i = 0; i < n.nchild; ++i) walk(n.child[i], ur || (n.kind == K_RETRY_WHEN), us || (n.kind == K_UNSTOPPABLE), es || n.kind == K_ANY || n.kind == K_LVWSS || n.kind == K_LVWST);
  };
  walk(sd.root, false, false, false);
  // KNOWN FINDING stop_source_destroyed_in_callback: an operation that embeds its own inplace_stop_source
  // (let_value_with_stop_source's fused source, any_sender_of's token adapter) is destroyed while that source's
  // request_stop() is still on the stack when a child completes synchronously inside its stop callback.
  // Excluded by construction: such leaves answer a stop request with a *deferred* done instead.
  const bool exclude_embedded = known("stop_source_destroyed_in_callback");
  std::string t;
  for (int l = 0; l < sd.nleaves; ++l) {
    sr::LeafSpec& s = p.spec[(size_t)l];
    int na = 1 + (int)c.upto(3);
    for (int a = 0; a < na; ++a) {
      sr::LeafSpec::Attempt at;
      unsigned o = c.upto(20);
      at.chan = o < 10 ? sr::VALUE : o < 13 ? sr::ERROR : o < 15 ? sr::ERROR : sr::DONE;
      at.errkind = 0;
      unsigned tm = c.upto(20);
      at.timing = tm < 8 ? 0 : tm < 17 ? 1 : 2;
      // a leaf that completes only in reaction to stop but can never see one (below unstoppable()) would never
      // complete; tearing down a running operation is not a legal thing for the harness to do
      if (at.timing == 2 && unstoppable[(size_t)l]) at.timing = 1;
      if (leaf_kind[(size_t)l] == 1) at.timing = 0;                                   // declared always_inline: the harness leaf honours its own trait
      if (leaf_kind[(size_t)l] == 2 && at.chan == sr::DONE) at.chan = sr::VALUE;      // declared sends_done == false
      at.ctx = (int)c.upto(4);
      if (a == na - 1 && under_retry[(size_t)l] && at.chan == sr::ERROR) at.chan = sr::VALUE;
      s.attempts.push_back(at);
    }
    unsigned os = c.upto(20);
    s.on_stop = os < 6 ? 0 : os < 15 ? 1 : 2;
    s.stop_root_in_start = c.chance(1, 16);
    if (leaf_kind[(size_t)l] == 1 && s.on_stop == 2) s.on_stop = 1;   // an always_inline leaf may only complete inside start()
    if (leaf_kind[(size_t)l] == 2) { s.on_stop = 0; for (auto& at : s.attempts) if (at.timing == 2) at.timing = 1; }
    for (auto& at : s.attempts) if (at.timing == 2 && s.on_stop == 0) s.on_stop = 1;
    if (exclude_embedded && embedded_src[(size_t)l] && s.on_stop == 1) { s.on_stop = leaf_kind[(size_t)l] == 1 ? 0 : 2; vk::ctx().label("altered-by-known-finding:stop_source_destroyed_in_callback"); }   // (an always_inline leaf cannot defer: it ignores the request and completes as planned)
    t += vk::sfmt("L%d{", l);
    for (auto& at : s.attempts) t += vk::sfmt("%s%s/%s/ctx%d ", sr::chan_name(at.chan), at.chan == sr::ERROR ? (at.errkind ? ":Err" : ":exc") : "", at.timing == 0 ? "inline" : at.timing == 1 ? "deferred" : "on-stop-only", at.ctx);
    t += vk::sfmt("on_stop=%s%s} ", s.on_stop == 0 ? "ignore" : s.on_stop == 1 ? "done-inline" : "done-deferred", s.stop_root_in_start ? " stops-root-in-start" : "");
  }
  std::vector<int> callable_nodes;
  for (int i = 0; i < sd.nnodes; ++i) {
    const NodeDesc& n = sd.nodes[i];
    switch (n.kind) {
      case K_JVOD: p.node_arg[n.nid] = c.chance(3, 4) ? 1 : 0; t += vk::sfmt("n%d=%d ", n.nid, p.node_arg[n.nid]); break;
      case K_REPEAT: p.node_arg[n.nid] = 1 + (int)c.upto(3); t += vk::sfmt("repeat n%d x%d ", n.nid, p.node_arg[n.nid]); break;
      case K_VARIANT: p.node_arg[n.nid] = (int)c.upto(2); break;
      default: break;
    }
    switch (n.kind) {
      case K_THEN: case K_E2V: case K_V2E: case K_UPON_ERROR: case K_UPON_DONE: case K_LET_VALUE: case K_LET_ERROR: case K_LET_DONE:
      case K_JUST_FROM: case K_RETRY_WHEN: case K_REPEAT: case K_DEFER: callable_nodes.push_back(n.nid); break;
      default: break;
    }
  }
  p.stop_before_start = c.chance(1, 8);
  p.stop_tokens = c.chance(11, 20) ? 1 : 0;
  p.stop_after_completion = c.chance(1, 8);
  p.destroy_on_completion = c.flag();
  p.never_start = c.chance(1, 24);
  static const uint8_t pats[] = {0x00, 0xFF, 0xA5, 0x5A};
  unsigned pp = c.upto(5); p.poison = pp < 4 ? pats[pp] : (uint8_t)c.upto(256);
  unsigned f = c.upto(20);
  if (f >= 12 && f < 17 && !callable_nodes.empty()) { p.fault_node = callable_nodes[c.upto((uint32_t)callable_nodes.size())]; p.fault_call = (int)c.upto(2); }
  else if (f >= 17 || (f >= 9 && f < 12 && vk::ctx().argi("legacy", 0) == 0 && (vk::ctx().prop == "C02" || vk::ctx().prop == "C05" || vk::ctx().prop == "C11"))) { p.anon_fault = (long)c.upto(48); }
  // a stop request issued from inside a callable (between an adaptor's steps: after the predecessor completed, before the successor
  // exists); derived from the hash of the decoded plan so that recorded byte strings decode as before
  if (vk::ctx().argi("legacy", 0) == 0 && p.fault_node < 0 && p.anon_fault < 0 && !callable_nodes.empty() && !p.stop_before_start && c.h % 5 == 0) {
    p.stop_call_node = callable_nodes[(size_t)((c.h / 5) % callable_nodes.size())]; p.stop_call_idx = (int)((c.h / 977) % 2);
    c.mix((uint64_t)(p.stop_call_node * 2 + p.stop_call_idx + 3));
    t += vk::sfmt("stop-inside-callable(n%d,call%d) ", p.stop_call_node, p.stop_call_idx);
  }
  t += vk::sfmt("| stop:%s%s%s destroy_in_completion=%d%s poison=%02x", p.stop_before_start ? "before-start " : "", p.stop_tokens ? "as-event " : "", p.stop_after_completion ? "after-completion " : "", (int)p.destroy_on_completion, p.never_start ? " NEVER-STARTED" : "", p.poison);
  if (p.fault_node >= 0) t += vk::sfmt(" fault:callable(n%d,call%d)", p.fault_node, p.fault_call);
  if (p.anon_fault >= 0) t += vk::sfmt(" fault:throw-point#%ld", p.anon_fault);
  p.text = t;
  return p;
}


}  // namespace ef
